//! Fake peers of the agent and of the bgpfu command: an IRRd whois server and a Junos
//! NETCONF-over-TLS server with an ephemeral configuration database.
//!
//! Both are conforming by construction (IRRd response grammar; Junos merge / delete semantics
//! as written down in spec/Junos.tla) and log everything they see; the logs are the traces the
//! TLA+ trace specifications judge.
use std::{
    collections::BTreeMap,
    io::{BufRead, BufReader, Write},
    net::{SocketAddr, TcpListener as StdListener},
    sync::{Arc, Mutex},
    time::Duration,
};

use serde_json::{json, Value};
use tokio::{
    io::{AsyncReadExt, AsyncWriteExt},
    net::TcpListener,
};

use crate::util::*;

pub const XNM: &str = "http://xml.juniper.net/xnm/1.1/xnm";
pub const JCMD: &str = "http://yang.juniper.net/junos/jcmd";

// =============================================================================================
// fake IRRd (blocking, one thread per connection)

/// database: as-sets (name -> flattened member AS names are computed here), route-sets,
/// filter-sets, routes per AS; `errors`: query string (without newline) -> "D" | "E" | "F"
#[derive(Debug, Clone, Default)]
pub struct IrrDb {
    pub as_sets: BTreeMap<String, Vec<String>>,
    pub route_sets: BTreeMap<String, Vec<String>>,
    pub filter_sets: BTreeMap<String, String>,
    /// the copies of filter-sets that a second registry (source TEST2, selected by default as well) holds: a name in both
    /// tables is answered with two objects, the one of TEST first
    pub filter_sets2: BTreeMap<String, String>,
    pub routes4: BTreeMap<String, Vec<String>>,
    pub routes6: BTreeMap<String, Vec<String>>,
    pub errors: BTreeMap<String, String>,
    /// transient trouble: the same, but only the first time the query is seen (by this server, on any connection)
    pub errors_once: BTreeMap<String, String>,
    /// answer `C` instead of `D` for an AS without routes
    pub empty_as_c: bool,
    /// answers are written in pieces of this many bytes (0: in one piece)
    pub dribble: usize,
    /// make every answer at least this many bytes long without changing what it means: remarks lines in objects,
    /// repeated members / routes in lists (real registries have objects and route lists of many kilobytes)
    pub pad: usize,
}

impl IrrDb {
    pub fn from_json(v: &Value) -> IrrDb {
        let map_list = |v: &Value| -> BTreeMap<String, Vec<String>> {
            v.as_object()
                .map(|o| {
                    o.iter()
                        .map(|(k, x)| {
                            (
                                k.to_uppercase(),
                                x.as_array()
                                    .map(|a| a.iter().filter_map(|s| s.as_str().map(String::from)).collect())
                                    .unwrap_or_default(),
                            )
                        })
                        .collect()
                })
                .unwrap_or_default()
        };
        IrrDb {
            as_sets: map_list(&v["as_sets"]),
            route_sets: map_list(&v["route_sets"]),
            filter_sets: v["filter_sets"]
                .as_object()
                .map(|o| o.iter().map(|(k, x)| (k.to_uppercase(), x.as_str().unwrap_or("").to_string())).collect())
                .unwrap_or_default(),
            filter_sets2: v["filter_sets2"]
                .as_object()
                .map(|o| o.iter().map(|(k, x)| (k.to_uppercase(), x.as_str().unwrap_or("").to_string())).collect())
                .unwrap_or_default(),
            routes4: map_list(&v["routes4"]),
            routes6: map_list(&v["routes6"]),
            errors: v["errors"]
                .as_object()
                .map(|o| o.iter().map(|(k, x)| (k.clone(), x.as_str().unwrap_or("D").to_string())).collect())
                .unwrap_or_default(),
            errors_once: v["errors_once"]
                .as_object()
                .map(|o| o.iter().map(|(k, x)| (k.clone(), x.as_str().unwrap_or("F").to_string())).collect())
                .unwrap_or_default(),
            empty_as_c: v["empty_as_c"].as_bool().unwrap_or(false),
            pad: v["pad"].as_u64().unwrap_or(0) as usize,
            dribble: v["dribble"].as_u64().unwrap_or(0) as usize,
        }
    }

    /// recursive member ASes of an as-set (IRRd `!i<set>,1`), None if the set is unknown
    fn as_members(&self, name: &str) -> Option<Vec<String>> {
        let mut seen = vec![name.to_uppercase()];
        let mut out: Vec<String> = Vec::new();
        let mut stack = vec![name.to_uppercase()];
        self.as_sets.get(&name.to_uppercase())?;
        while let Some(s) = stack.pop() {
            if let Some(ms) = self.as_sets.get(&s) {
                for m in ms {
                    let mu = m.to_uppercase();
                    if mu.starts_with("AS-") || mu.contains(":AS-") {
                        if !seen.contains(&mu) {
                            seen.push(mu.clone());
                            stack.push(mu);
                        }
                    } else if !out.contains(&mu) {
                        out.push(mu);
                    }
                }
            }
        }
        Some(out)
    }

    /// recursive member prefixes of a route-set
    fn rs_members(&self, name: &str) -> Option<Vec<String>> {
        self.route_sets.get(&name.to_uppercase())?;
        let mut seen = vec![name.to_uppercase()];
        let mut out: Vec<String> = Vec::new();
        let mut stack = vec![name.to_uppercase()];
        while let Some(s) = stack.pop() {
            if let Some(ms) = self.route_sets.get(&s) {
                for m in ms {
                    let mu = m.to_uppercase();
                    if mu.starts_with("RS-") {
                        if !seen.contains(&mu) {
                            seen.push(mu.clone());
                            stack.push(mu);
                        }
                    } else if mu.starts_with("AS") && !mu.contains('/') {
                        for r in self.routes4.get(&mu).into_iter().flatten().chain(self.routes6.get(&mu).into_iter().flatten()) {
                            out.push(r.clone());
                        }
                    } else {
                        out.push(m.clone());
                    }
                }
            }
        }
        Some(out)
    }

    /// the same list, repeated until it is at least `pad` bytes long (a repeated member or route changes nothing)
    fn padded(&self, words: &[String]) -> String {
        if words.is_empty() || self.pad == 0 {
            return Self::data(words);
        }
        let mut w: Vec<String> = words.to_vec();
        while w.iter().map(|x| x.len() + 1).sum::<usize>() < self.pad {
            w.extend_from_slice(words);
        }
        Self::data(&w)
    }

    fn data(words: &[String]) -> String {
        if words.is_empty() {
            return "C\n".into();
        }
        let d = words.join(" ");
        format!("A{}\n{}\nC\n", d.len() + 1, d)
    }

    /// the full response to one query line on a connection whose source selection includes (`alt`) the source the
    /// server carries but does not use by default
    pub fn answer_sel(&self, q: &str, alt: bool) -> Option<String> {
        if alt && !self.errors.contains_key(q) {
            // ALT has one more route / route6 object for every AS that has any
            for (pfx, extra, tbl) in [("!g", ALT_ROUTE4, &self.routes4), ("!6", ALT_ROUTE6, &self.routes6)] {
                if let Some(asn) = q.strip_prefix(pfx) {
                    let mut r = tbl.get(&asn.to_uppercase()).cloned().unwrap_or_default();
                    if self.routes4.get(&asn.to_uppercase()).is_some_and(|x| !x.is_empty()) || self.routes6.get(&asn.to_uppercase()).is_some_and(|x| !x.is_empty()) {
                        r.push(extra.to_string());
                    }
                    return Some(if r.is_empty() && !self.empty_as_c { "D\n".into() } else { self.padded(&r) });
                }
            }
        }
        if q == "!s-lc" {
            return Some(Self::data(&[if alt { "TEST,ALT".to_string() } else { "TEST".to_string() }]));
        }
        self.answer(q)
    }

    /// the full response to one query line
    pub fn answer(&self, q: &str) -> Option<String> {
        if q == "!!" {
            return None;
        }
        if let Some(e) = self.errors.get(q) {
            return Some(match e.as_str() {
                "E" => "E\n".into(),
                "F" => "F injected failure\n".into(),
                _ => "D\n".into(),
            });
        }
        if q.starts_with("!n") || q.starts_with("!t") {
            return Some("C\n".into());
        }
        // source selection: one source, TEST
        if q == "!s-lc" {
            return Some(Self::data(&["TEST".to_string()]));
        }
        if q.starts_with("!s") {
            return Some("C\n".into());
        }
        if q == "!j-*" || q.starts_with("!j") {
            return Some(Self::data(&["TEST:Y:1-1".to_string()]));
        }
        if let Some(rest) = q.strip_prefix("!i") {
            let name = rest.trim_end_matches(",1");
            let upper = name.to_uppercase();
            if !rest.ends_with(",1") {
                // without ",1" IRRd lists the direct members as they are written in the object
                let direct = if upper.starts_with("RS-") { self.route_sets.get(&upper) } else { self.as_sets.get(&upper) };
                return Some(match direct {
                    Some(m) => Self::data(m),
                    None => "D\n".into(),
                });
            }
            if upper.starts_with("RS-") {
                return Some(match self.rs_members(name) {
                    Some(m) => self.padded(&m),
                    None => "D\n".into(),
                });
            }
            // (member lists are not padded: every repeated member would cost two more queries)
            return Some(match self.as_members(name) {
                Some(m) => Self::data(&m),
                None => "D\n".into(),
            });
        }
        if let Some(asn) = q.strip_prefix("!g") {
            let r = self.routes4.get(&asn.to_uppercase()).cloned().unwrap_or_default();
            return Some(if r.is_empty() && !self.empty_as_c { "D\n".into() } else { self.padded(&r) });
        }
        if let Some(asn) = q.strip_prefix("!6") {
            let r = self.routes6.get(&asn.to_uppercase()).cloned().unwrap_or_default();
            return Some(if r.is_empty() && !self.empty_as_c { "D\n".into() } else { self.padded(&r) });
        }
        if let Some(rest) = q.strip_prefix("!m") {
            let (class, name) = rest.split_once(',').unwrap_or((rest, ""));
            if class == "filter-set" {
                let mut remarks = String::new();
                while remarks.len() < self.pad {
                    remarks.push_str("remarks:        ------------------------------------------------------------\n");
                }
                let object = |expr: &String, source: &str| {
                    format!(
                        "filter-set:     {name}\ndescr:          generated\n{remarks}mp-filter:      {expr}\nchanged:        noc@example.net 20240101\ntech-c:         DUMY-TEST\nadmin-c:        DUMY-TEST\nmnt-by:         MAINT-TEST\nsource:         {source}\n"
                    )
                };
                // one object per registry that has the name, in the server's order of the registries
                let objs: Vec<String> = [(self.filter_sets.get(&name.to_uppercase()), "TEST"), (self.filter_sets2.get(&name.to_uppercase()), "TEST2")]
                    .iter()
                    .filter_map(|(e, src)| e.map(|e| object(e, src)))
                    .collect();
                if !objs.is_empty() {
                    let body = objs.join("\n");
                    return Some(format!("A{}\n{}C\n", body.len(), body));
                }
            }
            let upper = name.to_uppercase();
            let tail = "mnt-by:         MAINT-TEST\nsource:         TEST\n";
            let obj = match class {
                "as-set" => self.as_sets.get(&upper).map(|m| format!("as-set:         {name}\nmembers:        {}\n{tail}", m.join(", "))),
                "route-set" => self.route_sets.get(&upper).map(|m| {
                    let (v6, v4): (Vec<&String>, Vec<&String>) = m.iter().partition(|x| x.contains(':') && x.contains('/'));
                    let mut o = format!("route-set:      {name}\n");
                    if !v4.is_empty() {
                        o.push_str(&format!("members:        {}\n", v4.iter().map(|x| x.as_str()).collect::<Vec<_>>().join(", ")));
                    }
                    if !v6.is_empty() {
                        o.push_str(&format!("mp-members:     {}\n", v6.iter().map(|x| x.as_str()).collect::<Vec<_>>().join(", ")));
                    }
                    o + tail
                }),
                "aut-num" if self.routes4.contains_key(&upper) || self.routes6.contains_key(&upper) => {
                    Some(format!("aut-num:        {name}\nas-name:        GENERATED\n{tail}"))
                }
                _ => None,
            };
            return Some(match obj {
                Some(o) => format!("A{}\n{}C\n", o.len(), o),
                None => "D\n".into(),
            });
        }
        // route searches: exact match with origins (`!r<prefix>,o`) and exact match objects (`!r<prefix>`)
        if let Some(rest) = q.strip_prefix("!r") {
            let (pfx, opt) = rest.split_once(',').unwrap_or((rest, ""));
            let mut origins: Vec<String> = Vec::new();
            for (asn, rs) in self.routes4.iter().chain(self.routes6.iter()) {
                if rs.iter().any(|r| r.eq_ignore_ascii_case(pfx)) && !origins.contains(asn) {
                    origins.push(asn.clone());
                }
            }
            if origins.is_empty() {
                return Some("D\n".into());
            }
            if opt == "o" {
                return Some(Self::data(&origins));
            }
            let objs: Vec<String> = origins
                .iter()
                .map(|a| format!("{}:          {pfx}\norigin:         {a}\nsource:         TEST\n", if pfx.contains(':') { "route6" } else { "route" }))
                .collect();
            let body = objs.join("\n");
            return Some(format!("A{}\n{}C\n", body.len(), body));
        }
        if q == "!v" {
            return Some(Self::data(&["fake-irrd".to_string()]));
        }
        Some("F unsupported query\n".into())
    }
}

pub struct FakeIrrd {
    pub addr: SocketAddr,
    /// (connection number, query) in arrival order
    pub log: Arc<Mutex<Vec<(usize, String)>>>,
    /// the database (and "ok" | "close") served to connections accepted from now on: a daemon-mode scenario
    /// swaps it between the runs of one agent process
    pub live: Arc<Mutex<(IrrDb, String)>>,
}

/// `mode`: "ok" | "refuse" (listener closed at once) | "close" (accept, then close before any answer)
pub fn start_irrd(db: IrrDb, mode: &str) -> FakeIrrd {
    let listener = StdListener::bind(("127.0.0.1", 0)).expect("bind irrd");
    let addr = listener.local_addr().unwrap();
    let log: Arc<Mutex<Vec<(usize, String)>>> = Arc::new(Mutex::new(Vec::new()));
    let live = Arc::new(Mutex::new((db, mode.to_string())));
    if mode == "refuse" {
        drop(listener);
        return FakeIrrd { addr, log, live };
    }
    let log2 = log.clone();
    let live2 = live.clone();
    let seen_once: Arc<Mutex<Vec<String>>> = Arc::new(Mutex::new(Vec::new()));
    std::thread::spawn(move || {
        let mut nconn = 0usize;
        for stream in listener.incoming() {
            let Ok(stream) = stream else { continue };
            nconn += 1;
            let (db, mode) = live2.lock().unwrap().clone();
            if mode == "close" || mode == "refuse" {
                drop(stream);
                continue;
            }
            let (db, log, n, seen_once) = (db, log2.clone(), nconn, seen_once.clone());
            std::thread::spawn(move || {
                let _ = stream.set_nodelay(true);
                let mut w = stream.try_clone().expect("clone");
                let r = BufReader::new(stream);
                // the source selection of this connection: the server carries TEST and ALT and uses TEST by default
                let mut alt = false;
                for line in r.lines() {
                    let Ok(line) = line else { break };
                    let q = line.trim_end().to_string();
                    log.lock().unwrap().push((n, q.clone()));
                    if q == "!q" {
                        break;
                    }
                    let once = db.errors_once.get(&q).cloned().filter(|_| {
                        let mut s = seen_once.lock().unwrap();
                        if s.contains(&q) {
                            false
                        } else {
                            s.push(q.clone());
                            true
                        }
                    });
                    let answer = match once {
                        Some(kind) => Some(match kind.as_str() {
                            "E" => "E\n".to_string(),
                            "D" => "D\n".to_string(),
                            _ => "F transient failure\n".to_string(),
                        }),
                        None => db.answer_sel(&q, alt),
                    };
                    if let Some(list) = q.strip_prefix("!s") {
                        if list != "-lc" {
                            alt = list == "-*" || list.split(',').any(|x| x.trim().eq_ignore_ascii_case("ALT"));
                        }
                    }
                    if let Some(a) = answer {
                        let piece = if db.dribble == 0 { a.len().max(1) } else { db.dribble };
                        let mut broken = false;
                        for part in a.as_bytes().chunks(piece) {
                            if w.write_all(part).is_err() {
                                broken = true;
                                break;
                            }
                            let _ = w.flush();
                            if db.dribble > 0 {
                                std::thread::yield_now();
                            }
                        }
                        if broken {
                            break;
                        }
                    }
                }
            });
        }
    });
    FakeIrrd { addr, log, live }
}

// =============================================================================================
// denotation of route-filters over the prefix universe of spec/Rpsl.tla:
// IPv4: every prefix of length 8..=11 under 10.0.0.0/8; IPv6: length 32..=34 under 2001:db8::/32

/// what the source ALT adds to every AS that has routes (inside the prefix universe)
pub const ALT_ROUTE4: &str = "10.224.0.0/11";
pub const ALT_ROUTE6: &str = "2001:db8:c000::/34";

pub const U4_ROOT: (u32, u8) = (0x0a00_0000, 8);
pub const U4_MAXLEN: u8 = 11;
pub const U6_ROOT: (u128, u8) = (0x2001_0db8_0000_0000_0000_0000_0000_0000, 32);
pub const U6_MAXLEN: u8 = 34;

fn parse_prefix(s: &str) -> Option<(bool, u128, u8)> {
    let (a, l) = s.split_once('/')?;
    let len: u8 = l.parse().ok()?;
    if let Ok(v4) = a.parse::<std::net::Ipv4Addr>() {
        return Some((false, u32::from(v4) as u128, len));
    }
    let v6 = a.parse::<std::net::Ipv6Addr>().ok()?;
    Some((true, u128::from(v6), len))
}

fn mask(bits: u8, len: u8) -> u128 {
    if len == 0 { 0 } else { (!0u128 >> (128 - bits as u32)) & !((1u128 << (bits - len) as u32).wrapping_sub(1)) }
}

pub fn atom_name(v6: bool, addr: u128, len: u8) -> String {
    if v6 {
        format!("{}/{}", std::net::Ipv6Addr::from(addr), len)
    } else {
        format!("{}/{}", std::net::Ipv4Addr::from(addr as u32), len)
    }
}

/// all atoms of one family
pub fn universe(v6: bool) -> Vec<(u128, u8)> {
    let (root, rl, maxl, bits) = if v6 { (U6_ROOT.0, U6_ROOT.1, U6_MAXLEN, 128u8) } else { (U4_ROOT.0 as u128, U4_ROOT.1, U4_MAXLEN, 32u8) };
    let mut out = Vec::new();
    for len in rl..=maxl {
        for k in 0..(1u128 << (len - rl)) {
            out.push((root | (k << (bits - len) as u32), len));
        }
    }
    out
}

/// "address range" (e.g. "10.0.0.0/8 /9-/10") -> (atoms it matches, does it match anything else)
pub fn denote(filter: &str) -> (Vec<String>, bool) {
    let Some((addr, range)) = filter.split_once(' ') else { return (vec![], true) };
    let Some((v6, a, l)) = parse_prefix(addr) else { return (vec![], true) };
    let parse_len = |s: &str| s.trim_start_matches('/').parse::<u8>().ok();
    let bits: u8 = if v6 { 128 } else { 32 };
    // route-filter match types: prefix-length-range "/lo-/hi", "exact", "orlonger", "upto /n"
    let span = match range {
        "exact" => Some((l, l)),
        "orlonger" => Some((l, bits)),
        r if r.starts_with("upto ") => parse_len(&r[5..]).map(|n| (l, n)),
        r => r.split_once('-').and_then(|(x, y)| Some((parse_len(x)?, parse_len(y)?))),
    };
    let Some((lo, hi)) = span else { return (vec![], true) };
    let (root, rl, maxl) = if v6 { (U6_ROOT.0, U6_ROOT.1, U6_MAXLEN) } else { (U4_ROOT.0 as u128, U4_ROOT.1, U4_MAXLEN) };
    if l > bits || lo > hi || hi > bits || lo < l {
        return (vec![], true);
    }
    // second universe, for policies with thousands of ranges: the /24s under 172.16.0.0/12 and the /48s under
    // 2001:db9::/36 (4096 atoms each); a filter there denotes the atoms of exactly that length it covers
    let (mut broot, mut brl, blen): (u128, u8, u8) = if v6 { (0x2001_0db9_0000_0000_0000_0000_0000_0000, 36, 48) } else { (0xac10_0000, 12, 24) };
    // ... and, for runs with many policies of some hundred ranges each, the /24s under 100.64.0.0/10
    if !v6 && l >= 10 && (a & mask(bits, 10)) == 0x6440_0000 {
        broot = 0x6440_0000;
        brl = 10;
    }
    if l >= brl && (a & mask(bits, brl)) == broot {
        let mut atoms = Vec::new();
        if l <= blen && lo <= blen && blen <= hi {
            let base = a & mask(bits, l);
            for k in 0..(1u128 << (blen - l)) {
                atoms.push(atom_name(v6, base | (k << (bits - blen) as u32), blen));
            }
        }
        return (atoms, lo != blen || hi != blen);
    }
    let mut atoms = Vec::new();
    for (ua, ul) in universe(v6) {
        // atom (ua/ul) is matched iff it lies inside addr/l and lo <= ul <= hi
        if ul >= l && (ua & mask(bits, l)) == (a & mask(bits, l)) && lo <= ul && ul <= hi {
            atoms.push(atom_name(v6, ua, ul));
        }
    }
    // anything matched outside the universe? the filter is inside the universe iff its address lies
    // under the root (or is the root) and hi <= maxl, and everything it matches has length >= root length
    let under_root = l >= rl && (a & mask(bits, rl)) == root;
    let extra = !(under_root && hi <= maxl);
    (atoms, extra)
}

pub fn den_map(filters: impl IntoIterator<Item = String>) -> Value {
    let mut m = serde_json::Map::new();
    for f in filters {
        if !m.contains_key(&f) {
            let (atoms, extra) = denote(&f);
            m.insert(f, json!({"atoms": atoms, "extra": extra}));
        }
    }
    Value::Object(m)
}

pub fn eph_filters(e: &Eph) -> Vec<String> {
    e.iter()
        .flat_map(|(_, p)| p.terms.iter().flat_map(|t| t.filters.iter().map(|(a, r)| format!("{a} {r}"))))
        .collect()
}

pub fn update_filters(u: &Value) -> Vec<String> {
    let mut v = Vec::new();
    for p in u["policies"].as_array().into_iter().flatten() {
        for t in p["terms"].as_array().into_iter().flatten() {
            for k in ["adds", "dels"] {
                for f in t[k].as_array().into_iter().flatten() {
                    if let Some(s) = f.as_str() {
                        v.push(s.to_string());
                    }
                }
            }
        }
    }
    v
}

// =============================================================================================
// fake Junos

#[derive(Debug, Clone, PartialEq, Default)]
pub struct Term {
    pub name: String,
    pub family: Option<String>,
    /// (address, prefix-length-range) in insertion order
    pub filters: Vec<(String, String)>,
    pub accept: bool,
}

#[derive(Debug, Clone, PartialEq, Default)]
pub struct Policy {
    pub terms: Vec<Term>,
    pub reject: bool,
}

pub type Eph = Vec<(String, Policy)>;

pub fn eph_to_json(e: &Eph) -> Value {
    Value::Array(
        e.iter()
            .map(|(n, p)| {
                json!({"name": n, "reject": p.reject, "terms": p.terms.iter().map(|t| json!({
                    "name": t.name, "family": t.family.clone().unwrap_or_else(|| "none".into()),
                    "filters": t.filters.iter().map(|(a, r)| format!("{a} {r}")).collect::<Vec<_>>(),
                    "accept": t.accept})).collect::<Vec<_>>()})
            })
            .collect(),
    )
}

pub fn eph_from_json(v: &Value) -> Eph {
    v.as_array()
        .map(|a| {
            a.iter()
                .map(|p| {
                    (
                        p["name"].as_str().unwrap_or("").to_string(),
                        Policy {
                            reject: p["reject"].as_bool().unwrap_or(true),
                            terms: p["terms"]
                                .as_array()
                                .map(|ts| {
                                    ts.iter()
                                        .map(|t| Term {
                                            name: t["name"].as_str().unwrap_or("").to_string(),
                                            family: t["family"].as_str().filter(|f| *f != "none").map(String::from),
                                            filters: t["filters"]
                                                .as_array()
                                                .map(|fs| {
                                                    fs.iter()
                                                        .filter_map(|f| f.as_str())
                                                        .filter_map(|f| f.split_once(' '))
                                                        .map(|(a, r)| (a.to_string(), r.to_string()))
                                                        .collect()
                                                })
                                                .unwrap_or_default(),
                                            accept: t["accept"].as_bool().unwrap_or(false),
                                        })
                                        .collect()
                                })
                                .unwrap_or_default(),
                        },
                    )
                })
                .collect()
        })
        .unwrap_or_default()
}

// ---- a small strict XML reader for the update payloads ----
#[derive(Debug, Clone)]
pub struct Elem {
    pub name: String,
    pub attrs: Vec<(String, String)>,
    pub children: Vec<Elem>,
    pub text: String,
}

pub fn unescape(s: &str) -> String {
    s.replace("&lt;", "<")
        .replace("&gt;", ">")
        .replace("&quot;", "\"")
        .replace("&apos;", "'")
        .replace("&amp;", "&")
}

/// Parse one element starting at `s[*i]` == '<'. Returns None on malformed input.
pub fn parse_elem(s: &[u8], i: &mut usize) -> Option<Elem> {
    if s.get(*i) != Some(&b'<') {
        return None;
    }
    *i += 1;
    let start = *i;
    while *i < s.len() && !b" \t\r\n/>".contains(&s[*i]) {
        *i += 1;
    }
    let name = String::from_utf8_lossy(&s[start..*i]).to_string();
    if name.is_empty() {
        return None;
    }
    let mut attrs = Vec::new();
    loop {
        while *i < s.len() && b" \t\r\n".contains(&s[*i]) {
            *i += 1;
        }
        match s.get(*i)? {
            b'/' => {
                if s.get(*i + 1) != Some(&b'>') {
                    return None;
                }
                *i += 2;
                return Some(Elem { name, attrs, children: vec![], text: String::new() });
            }
            b'>' => {
                *i += 1;
                break;
            }
            _ => {
                let ks = *i;
                while *i < s.len() && s[*i] != b'=' && !b" \t\r\n".contains(&s[*i]) {
                    *i += 1;
                }
                let key = String::from_utf8_lossy(&s[ks..*i]).to_string();
                while *i < s.len() && b" \t\r\n".contains(&s[*i]) {
                    *i += 1;
                }
                if s.get(*i) != Some(&b'=') {
                    return None;
                }
                *i += 1;
                let q = *s.get(*i)?;
                if q != b'"' && q != b'\'' {
                    return None;
                }
                *i += 1;
                let vs = *i;
                while *i < s.len() && s[*i] != q {
                    if s[*i] == b'<' {
                        return None;
                    }
                    *i += 1;
                }
                let val = String::from_utf8_lossy(&s[vs..*i]).to_string();
                *i += 1;
                attrs.push((key, unescape(&val)));
            }
        }
    }
    let mut children = Vec::new();
    let mut text = String::new();
    loop {
        if *i >= s.len() {
            return None;
        }
        if s[*i] == b'<' {
            if s[*i..].starts_with(b"<!--") {
                let end = find(s, *i + 4, b"-->")?;
                *i = end + 3;
                continue;
            }
            if s.get(*i + 1) == Some(&b'/') {
                let ns = *i + 2;
                let end = find(s, ns, b">")?;
                let cname = String::from_utf8_lossy(&s[ns..end]).trim().to_string();
                if cname != name {
                    return None;
                }
                *i = end + 1;
                return Some(Elem { name, attrs, children, text: unescape(&text) });
            }
            children.push(parse_elem(s, i)?);
        } else {
            let ts = *i;
            while *i < s.len() && s[*i] != b'<' {
                *i += 1;
            }
            text.push_str(&String::from_utf8_lossy(&s[ts..*i]));
        }
    }
}

fn find(s: &[u8], from: usize, pat: &[u8]) -> Option<usize> {
    if from > s.len() {
        return None;
    }
    s[from..].windows(pat.len()).position(|w| w == pat).map(|p| p + from)
}

impl Elem {
    pub fn child(&self, n: &str) -> Option<&Elem> {
        self.children.iter().find(|c| c.name == n)
    }
    pub fn attr(&self, n: &str) -> Option<&str> {
        self.attrs.iter().find(|(k, _)| k == n).map(|(_, v)| v.as_str())
    }
    pub fn is_delete(&self) -> bool {
        self.attr("delete") == Some("delete")
    }
    pub fn t(&self) -> String {
        self.text.trim().to_string()
    }
}

fn local(n: &str) -> &str {
    n.rsplit(':').next().unwrap_or(n)
}

/// RFC 6241 section 6 subtree filtering of one data element by one filter element of the same
/// (local) name: selection nodes (empty) take the whole subtree, content-match nodes (text only)
/// select their parent, containment nodes recurse.  Attributes of matched elements are kept.
pub fn subtree_filter(f: &Elem, d: &Elem) -> Option<Elem> {
    if f.children.is_empty() {
        // selection node (a content-match node is handled by its parent)
        return Some(d.clone());
    }
    let is_cm = |c: &Elem| c.children.is_empty() && !c.text.trim().is_empty();
    for cm in f.children.iter().filter(|c| is_cm(c)) {
        if !d.children.iter().any(|k| local(&k.name) == local(&cm.name) && k.text.trim() == cm.text.trim()) {
            return None;
        }
    }
    let sel: Vec<&Elem> = f.children.iter().filter(|c| !is_cm(c)).collect();
    if sel.is_empty() {
        return Some(d.clone());
    }
    let mut kids = Vec::new();
    let mut selected = false;
    for k in &d.children {
        if f.children.iter().any(|c| is_cm(c) && local(&c.name) == local(&k.name)) {
            kids.push(k.clone());
            continue;
        }
        for fc in &sel {
            if local(&fc.name) == local(&k.name) {
                if let Some(r) = subtree_filter(fc, k) {
                    kids.push(r);
                    selected = true;
                }
                break;
            }
        }
    }
    if !selected {
        return None;
    }
    Some(Elem { name: d.name.clone(), attrs: d.attrs.clone(), children: kids, text: String::new() })
}

pub fn render_elem(e: &Elem, out: &mut String) {
    out.push('<');
    out.push_str(&e.name);
    for (k, v) in &e.attrs {
        out.push_str(&format!(" {k}=\"{}\"", xml_escape(v)));
    }
    if e.children.is_empty() && e.text.is_empty() {
        out.push_str("/>");
        return;
    }
    out.push('>');
    if e.children.is_empty() {
        out.push_str(&xml_escape(&e.text));
    }
    for c in &e.children {
        render_elem(c, out);
    }
    out.push_str(&format!("</{}>", e.name));
}

/// Apply the `<filter type="subtree">` of a get-config request (if any) to a rendered configuration.
pub fn apply_get_filter(req: &Elem, config_xml: &str) -> Result<String, String> {
    let Some(filter) = req.children.first().and_then(|g| g.child("filter")) else {
        return Ok(config_xml.to_string());
    };
    if filter.attr("type").map_or(false, |t| t != "subtree") {
        return Err(format!("filter type {:?} not supported by the fake router", filter.attr("type")));
    }
    let mut i = 0usize;
    let data = parse_elem(config_xml.as_bytes(), &mut i).ok_or("fake router cannot parse its own configuration")?;
    let mut out = String::new();
    for f in &filter.children {
        if local(&f.name) == local(&data.name) {
            match subtree_filter(f, &data) {
                Some(r) => render_elem(&r, &mut out),
                // nothing selected: Junos still answers with the (empty) configuration element
                None => render_elem(&Elem { name: data.name.clone(), attrs: data.attrs.clone(), children: vec![], text: String::new() }, &mut out),
            }
        }
    }
    Ok(out)
}

/// One `load-configuration` payload projected to the shape Junos.tla's Load understands.
/// `foreign`: paths of anything that is not a policy-statement (or not understood inside one).
pub fn project_update(cfg: &Elem) -> Value {
    project_update_in(cfg, &[])
}

/// `installed`: names of the policy-statements the instance holds - a delete of a whole container
/// (`<policy-options delete="delete"/>`, `<configuration delete="delete"/>`) is a delete of every one of them
pub fn project_update_in(cfg: &Elem, installed: &[String]) -> Value {
    let mut foreign: Vec<String> = Vec::new();
    let mut policies = Vec::new();
    if cfg.name != "configuration" {
        foreign.push(format!("/{}", cfg.name));
    }
    let wipe = |policies: &mut Vec<Value>| {
        for n in installed {
            policies.push(json!({"policy": n, "delete": true, "terms": [], "reject": false, "comment": "", "expr": ""}));
        }
    };
    if cfg.is_delete() {
        wipe(&mut policies);
        foreign.push("/configuration[delete]".into());
    }
    for c in &cfg.children {
        if c.name != "policy-options" {
            foreign.push(format!("/configuration/{}", c.name));
            continue;
        }
        if c.is_delete() {
            // a write above the level of policy statements (whatever else lives in that container goes with it)
            wipe(&mut policies);
            foreign.push("/configuration/policy-options[delete]".into());
        }
        for ps in &c.children {
            if ps.name != "policy-statement" {
                foreign.push(format!("/configuration/policy-options/{}", ps.name));
                continue;
            }
            // a name is taken as it is written (quoted names may begin or end with a blank); only white space that
            // comes from laying the document out on several lines is not part of it
            let name = ps
                .child("name")
                .map(|n| if n.text.contains('\n') { n.t() } else { n.text.clone() })
                .unwrap_or_default();
            let mut terms = Vec::new();
            let mut reject = false;
            for x in &ps.children {
                match x.name.as_str() {
                    "name" => {}
                    "term" => {
                        let tname = x.child("name").map(|n| n.t()).unwrap_or_default();
                        let mut family = "none".to_string();
                        let mut adds = Vec::new();
                        let mut dels = Vec::new();
                        let mut accept = false;
                        let mut has_from = false;
                        for y in &x.children {
                            match y.name.as_str() {
                                "name" => {}
                                "from" => {
                                    has_from = true;
                                    for z in &y.children {
                                        match z.name.as_str() {
                                            "family" => family = z.t(),
                                            "route-filter" => {
                                                let a = z.child("address").map(|n| n.t()).unwrap_or_default();
                                                let r = z.child("prefix-length-range").map(|n| n.t()).unwrap_or_else(|| "?".into());
                                                for w in &z.children {
                                                    if !["address", "prefix-length-range"].contains(&w.name.as_str()) {
                                                        foreign.push(format!("policy-statement/term/from/route-filter/{}", w.name));
                                                    }
                                                }
                                                if z.is_delete() {
                                                    dels.push(format!("{a} {r}"));
                                                } else {
                                                    adds.push(format!("{a} {r}"));
                                                }
                                            }
                                            o => foreign.push(format!("policy-statement/term/from/{o}")),
                                        }
                                    }
                                }
                                "then" => {
                                    for z in &y.children {
                                        if z.name == "accept" {
                                            accept = true;
                                        } else {
                                            foreign.push(format!("policy-statement/term/then/{}", z.name));
                                        }
                                    }
                                }
                                o => foreign.push(format!("policy-statement/term/{o}")),
                            }
                        }
                        terms.push(json!({"name": tname, "delete": x.is_delete(), "has_from": has_from, "family": family,
                                          "adds": adds, "dels": dels, "accept": accept}));
                    }
                    "then" => {
                        for z in &x.children {
                            if z.name == "reject" {
                                reject = true;
                            } else {
                                foreign.push(format!("policy-statement/then/{}", z.name));
                            }
                        }
                    }
                    o => foreign.push(format!("policy-statement/{o}")),
                }
            }
            let comment = ps.attr("junos:comment").unwrap_or("").to_string();
            let expr = comment.split_once("from mp-filter expression ").map(|(_, e)| e.to_string()).unwrap_or_default();
            policies.push(json!({"policy": name, "delete": ps.is_delete(), "terms": terms, "reject": reject,
                                 "comment": comment, "expr": expr}));
        }
    }
    json!({"policies": policies, "foreign": foreign})
}

/// Rust copy of Junos!Load (merge with delete="delete"); cross-checked against the TLA+ operator
/// by the trace specification on every step.
pub fn apply_update(eph: &mut Eph, upd: &Value) {
    for p in upd["policies"].as_array().into_iter().flatten() {
        let name = p["policy"].as_str().unwrap_or("").to_string();
        if p["delete"].as_bool().unwrap_or(false) {
            eph.retain(|(n, _)| *n != name);
            continue;
        }
        if !eph.iter().any(|(n, _)| *n == name) {
            eph.push((name.clone(), Policy::default()));
        }
        let pol = &mut eph.iter_mut().find(|(n, _)| *n == name).unwrap().1;
        for t in p["terms"].as_array().into_iter().flatten() {
            let tname = t["name"].as_str().unwrap_or("").to_string();
            if t["delete"].as_bool().unwrap_or(false) {
                pol.terms.retain(|x| x.name != tname);
                continue;
            }
            if !pol.terms.iter().any(|x| x.name == tname) {
                pol.terms.push(Term { name: tname.clone(), ..Default::default() });
            }
            let term = pol.terms.iter_mut().find(|x| x.name == tname).unwrap();
            if t["family"].as_str().unwrap_or("none") != "none" {
                term.family = t["family"].as_str().map(String::from);
            }
            for d in t["dels"].as_array().into_iter().flatten() {
                if let Some((a, r)) = d.as_str().and_then(|s| s.split_once(' ')) {
                    term.filters.retain(|(x, y)| !(x == a && y == r));
                }
            }
            for d in t["adds"].as_array().into_iter().flatten() {
                if let Some((a, r)) = d.as_str().and_then(|s| s.split_once(' ')) {
                    if !term.filters.iter().any(|(x, y)| x == a && y == r) {
                        term.filters.push((a.to_string(), r.to_string()));
                    }
                }
            }
            if t["accept"].as_bool().unwrap_or(false) {
                term.accept = true;
            }
        }
        if p["reject"].as_bool().unwrap_or(false) {
            pol.reject = true;
        }
    }
}

pub fn render_eph(eph: &Eph) -> String {
    let mut s = format!(
        "<configuration xmlns=\"{XNM}\" junos:changed-seconds=\"1709120869\" junos:changed-localtime=\"2024-02-28 11:47:49 UTC\">"
    );
    if !eph.is_empty() {
        s.push_str("<policy-options>");
        for (n, p) in eph {
            s.push_str(&format!("<policy-statement><name>{}</name>", xml_escape(n)));
            for t in &p.terms {
                s.push_str(&format!("<term><name>{}</name>", xml_escape(&t.name)));
                if t.family.is_some() || !t.filters.is_empty() {
                    s.push_str("<from>");
                    if let Some(f) = &t.family {
                        s.push_str(&format!("<family>{f}</family>"));
                    }
                    for (a, r) in &t.filters {
                        match r.as_str() {
                            "exact" | "orlonger" => s.push_str(&format!("<route-filter><address>{a}</address><choice-ident>{r}</choice-ident></route-filter>")),
                            u if u.starts_with("upto ") => s.push_str(&format!(
                                "<route-filter><address>{a}</address><choice-ident>upto</choice-ident><choice-value>{}</choice-value></route-filter>", &u[5..]
                            )),
                            _ => s.push_str(&format!(
                                "<route-filter><address>{a}</address><choice-ident>prefix-length-range</choice-ident><choice-value>{r}</choice-value></route-filter>"
                            )),
                        }
                    }
                    s.push_str("</from>");
                }
                if t.accept {
                    s.push_str("<then><accept/></then>");
                }
                s.push_str("</term>");
            }
            if p.reject {
                s.push_str("<then><reject/></then>");
            }
            s.push_str("</policy-statement>");
        }
        s.push_str("</policy-options>");
    }
    s.push_str("</configuration>");
    s
}

/// running configuration: a list of statements `{name, attrs: [[key, value]...], body}` where body
/// is one of "reject" | "terms+reject" | "accept" | "empty" | "nothen" | raw xml given as "raw:<xml>"
pub fn render_running(stmts: &Value) -> String {
    let mut s = format!("<configuration xmlns=\"{XNM}\" junos:commit-seconds=\"1709120869\"><policy-options>");
    for st in stmts.as_array().into_iter().flatten() {
        s.push_str("<policy-statement");
        for a in st["attrs"].as_array().into_iter().flatten() {
            let k = a[0].as_str().unwrap_or("");
            let v = a[1].as_str().unwrap_or("");
            s.push_str(&format!(" {k}=\"{}\"", xml_escape(v)));
        }
        s.push('>');
        s.push_str(&format!("<name>{}</name>", xml_escape(st["name"].as_str().unwrap_or(""))));
        let body = st["body"].as_str().unwrap_or("reject");
        match body {
            "reject" => s.push_str("<then><reject/></then>"),
            "terms+reject" => s.push_str(
                "<term><name>t1</name><from><protocol>bgp</protocol></from><then><accept/></then></term><then><reject/></then>",
            ),
            "accept" => s.push_str("<then><accept/></then>"),
            "empty" | "nothen" => {}
            raw => s.push_str(raw.strip_prefix("raw:").unwrap_or("")),
        }
        s.push_str("</policy-statement>");
    }
    s.push_str("</policy-options></configuration>");
    s
}

/// what the fake router does for one request kind
#[derive(Debug, Clone)]
pub struct Fault {
    /// open | get-running | get-candidate | load | commit | close-db | close-session
    pub target: String,
    /// for loads: 1-based index of the load within the session (0 = any)
    pub index: usize,
    /// rpc-error | malformed | wrong-id | close-before | close-after | no-ok | delayed-error
    pub kind: String,
}

pub struct JunosState {
    pub running: Value,
    pub eph: Eph,
    pub log: Vec<Value>,
    pub sessions: usize,
    /// what the router does to the requests of sessions accepted from now on (a daemon-mode scenario changes it
    /// between the runs of one agent process)
    pub faults: Vec<Fault>,
    /// the router is unreachable: connections are dropped as soon as they are accepted
    pub refuse: bool,
    /// the router implements NETCONF 1.1 as well: it advertises :base:1.1 next to :base:1.0 and, with a client that
    /// advertises :base:1.1 too, both sides use chunked framing after the hello exchange (RFC 6242 section 4.1)
    pub caps11: bool,
}

pub struct FakeJunos {
    pub addr: SocketAddr,
    /// the same router without TLS: what the `cli xml-mode netconf` child of the agent's local target is bridged to
    pub plain_addr: SocketAddr,
    pub state: Arc<Mutex<JunosState>>,
}

fn kind_of(req: &Elem) -> String {
    let op = req.children.first().map(|c| c.name.clone()).unwrap_or_default();
    match op.as_str() {
        "open-configuration" => "open".into(),
        "get-config" => {
            let c = &req.children[0];
            let src = c.child("source").and_then(|s| s.children.first()).map(|d| d.name.clone()).unwrap_or_default();
            if src == "running" { "get-running".into() } else { format!("get-{src}") }
        }
        "load-configuration" => "load".into(),
        "commit-configuration" => "commit".into(),
        "close-configuration" => "close-db".into(),
        "close-session" => "close-session".into(),
        o => o.to_string(),
    }
}

const RPC_ERROR: &str = "<rpc-error><error-type>protocol</error-type><error-tag>operation-failed</error-tag><error-severity>error</error-severity><error-message>injected failure</error-message></rpc-error>";

/// Damage a positive reply (C14).  `msg` ends with the delimiter, which is kept.
pub fn mutate_reply(msg: &str, how: &str) -> Vec<u8> {
    let body = &msg[..msg.len() - EOM.len()];
    let rep = |from: &str, to: &str| -> String { body.replacen(from, to, 1) };
    let first_elem = |name: &str| -> Option<(usize, usize)> {
        let a = body.find(&format!("<{name}>"))?;
        let close = format!("</{name}>");
        let b = body[a..].find(&close)? + a + close.len();
        Some((a, b))
    };
    // systematic families: cut after the N-th tag, delete the N-th element (positions inside <data>)
    if let Some((fam, n)) = how.split_once('@') {
        let n: usize = n.parse().unwrap_or(0);
        let from = body.find("<data>").map(|k| k + 6).unwrap_or(0);
        let mut out: Vec<u8> = body.as_bytes().to_vec();
        match fam {
            "trunc" => {
                if let Some((k, _)) = body[from..].match_indices('>').nth(n) {
                    out.truncate(from + k + 1);
                }
            }
            // num<v>@N: the N-th number of the whole message (attribute values and text alike) made absurd
            f if f.starts_with("num") => {
                let big = match &f[3..] {
                    "63" => "9223372036854775808".to_string(),
                    "64" => "18446744073709551615".to_string(),
                    "neg" => "-1".to_string(),
                    _ => "9".repeat(40),
                };
                let b = body.as_bytes();
                let mut runs: Vec<(usize, usize)> = Vec::new();
                let mut i = 0;
                while i < b.len() {
                    if b[i].is_ascii_digit() {
                        let a = i;
                        while i < b.len() && b[i].is_ascii_digit() {
                            i += 1;
                        }
                        runs.push((a, i));
                    } else {
                        i += 1;
                    }
                }
                if let Some(&(a, z)) = runs.get(n) {
                    out = [&b[..a], big.as_bytes(), &b[z..]].concat();
                }
            }
            "del" => {
                let starts: Vec<usize> = body[from..]
                    .match_indices('<')
                    .map(|(k, _)| from + k)
                    .filter(|k| !body[*k..].starts_with("</") && !body[*k..].starts_with("<!"))
                    .collect();
                if let Some(&at) = starts.get(n) {
                    let mut i = at;
                    if parse_elem(body.as_bytes(), &mut i).is_some() {
                        out = [body[..at].as_bytes(), body[i..].as_bytes()].concat();
                    }
                }
            }
            _ => {}
        }
        out.extend_from_slice(EOM.as_bytes());
        return out;
    }
    let out: Vec<u8> = match how {
        "trunc-half" => body.as_bytes()[..body.len() / 2].to_vec(),
        "trunc-tag" => {
            let k = body.rfind("</").unwrap_or(body.len() / 2);
            body.as_bytes()[..k + 1].to_vec()
        }
        "trunc-attr" => {
            let k = body.find("=\"").map(|k| k + 3).unwrap_or(body.len() / 3);
            body.as_bytes()[..k].to_vec()
        }
        "dup-statement" => match first_elem("policy-statement") {
            Some((a, b)) => format!("{}{}{}", &body[..b], &body[a..b], &body[b..]).into_bytes(),
            None => rep("<ok/>", "<ok/><ok/>").into_bytes(),
        },
        "dup-name" => match first_elem("name") {
            Some((a, b)) => format!("{}{}{}", &body[..b], &body[a..b], &body[b..]).into_bytes(),
            None => rep("<ok/>", "<ok/><ok/><ok/>").into_bytes(),
        },
        "dup-root" => format!("{body}{body}").into_bytes(),
        "huge-int" => {
            let big = "9".repeat(40);
            let r = rep("<choice-value>/", &format!("<choice-value>/{big}"));
            if r == body { rep("message-id=\"", &format!("message-id=\"{big}")).into_bytes() } else { r.into_bytes() }
        }
        "range-reversed" => {
            let r = match first_elem("choice-value") {
                Some((a, b)) => format!("{}<choice-value>/32-/8</choice-value>{}", &body[..a], &body[b..]),
                None => rep("<ok/>", "<ok>/32-/8</ok>"),
            };
            r.into_bytes()
        }
        "range-junk" => match first_elem("choice-value") {
            Some((a, b)) => format!("{}<choice-value>-</choice-value>{}", &body[..a], &body[b..]).into_bytes(),
            None => rep("<ok/>", "<ok>-</ok>").into_bytes(),
        },
        "bad-prefix" => match first_elem("address") {
            Some((a, b)) => format!("{}<address>999.1.1.1/99</address>{}", &body[..a], &body[b..]).into_bytes(),
            None => rep("<ok/>", "<nok/>").into_bytes(),
        },
        "family-swapped" => {
            let r = rep("<family>inet</family>", "<family>inet6</family>");
            if r == body { rep("<ok/>", "<ok><ok/></ok>").into_bytes() } else { r.into_bytes() }
        }
        "family-unknown" => {
            let r = rep("<family>inet</family>", "<family>iso</family>");
            if r == body { rep("<ok/>", "<okay/>").into_bytes() } else { r.into_bytes() }
        }
        "wrong-ns" => {
            let r = rep(XNM, "http://example.net/not-xnm");
            if r == body { rep(BASE_NS, "urn:example:not-netconf").into_bytes() } else { r.into_bytes() }
        }
        "no-ns" => rep(&format!(" xmlns=\"{BASE_NS}\""), "").into_bytes(),
        "bad-utf8" => {
            let mut v = body.as_bytes().to_vec();
            let k = v.len() / 2;
            v.insert(k, 0xff);
            v.insert(k, 0xc3);
            v
        }
        "nul-byte" => {
            let mut v = body.as_bytes().to_vec();
            let k = v.len() / 2;
            v.insert(k, 0);
            v
        }
        "deep" => {
            let n = 20000;
            let inner = format!("{}{}", "<a>".repeat(n), "</a>".repeat(n));
            let r = rep("</rpc-reply>", &format!("{inner}</rpc-reply>"));
            r.into_bytes()
        }
        "deep-in-data" => {
            let n = 5000;
            let inner = format!("{}{}", "<term>".repeat(n), "</term>".repeat(n));
            let r = rep("</policy-statement>", &format!("{inner}</policy-statement>"));
            if r == body { rep("<ok/>", &format!("<ok>{inner}</ok>")).into_bytes() } else { r.into_bytes() }
        }
        "huge-comment" => rep(">", &format!("><!--{}-->", "x".repeat(2_000_000))).into_bytes(),
        "text-for-element" => match first_elem("policy-options") {
            Some((a, b)) => format!("{}some text{}", &body[..a], &body[b..]).into_bytes(),
            None => rep("<ok/>", "ok").into_bytes(),
        },
        "unknown-element" => {
            let r = rep("<term>", "<frobnicate><x/></frobnicate><term>");
            if r == body { rep("<ok/>", "<frobnicate/><ok/>").into_bytes() } else { r.into_bytes() }
        }
        "mismatched-end" => {
            let r = rep("</policy-options>", "</snoitpo-ycilop>");
            if r == body { rep("</rpc-reply>", "</ylper-cpr>").into_bytes() } else { r.into_bytes() }
        }
        "entity" => {
            let r = rep("<name>", "<name>&bogus;");
            if r == body { rep("<ok/>", "<ok>&bogus;</ok>").into_bytes() } else { r.into_bytes() }
        }
        "cdata" => {
            let r = rep("<name>", "<name><![CDATA[<x>]]>");
            if r == body { rep("<ok/>", "<![CDATA[<ok/>]]>").into_bytes() } else { r.into_bytes() }
        }
        "doctype" => format!("<!DOCTYPE x [<!ENTITY a \"aaaaaaaaaa\"><!ENTITY b \"&a;&a;&a;&a;&a;&a;&a;&a;\">]>{}", rep("<name>", "<name>&b;")).into_bytes(),
        "empty" => Vec::new(),
        "only-space" => b"   \n  ".to_vec(),
        "not-xml" => b"Permission denied (publickey).\r\n".to_vec(),
        "lt-only" => b"<".to_vec(),
        "two-replies" => {
            // the same reply twice, each with its own delimiter
            let mut v = body.as_bytes().to_vec();
            v.extend_from_slice(EOM.as_bytes());
            v.extend_from_slice(body.as_bytes());
            v
        }
        _ => body.as_bytes().to_vec(),
    };
    let mut out = out;
    out.extend_from_slice(EOM.as_bytes());
    out
}

/// Serve NETCONF sessions (sequentially accepted, each on its own task) until dropped.
pub async fn start_junos(
    running: Value,
    eph: Eph,
    faults: Vec<Fault>,
    acceptor: tokio_rustls::TlsAcceptor,
    case: String,
    style: Option<crate::xmlgen::Style>,
) -> FakeJunos {
    let listener = TcpListener::bind(("127.0.0.1", 0)).await.unwrap();
    let addr = listener.local_addr().unwrap();
    let state = Arc::new(Mutex::new(JunosState { running, eph, log: Vec::new(), sessions: 0, faults, refuse: false, caps11: false }));
    let st = state.clone();
    let case2 = case.clone();
    drop(tokio::spawn(async move {
        loop {
            let Ok((tcp, _)) = listener.accept().await else { break };
            let _ = tcp.set_nodelay(true);
            let (faults, refuse) = {
                let g = st.lock().unwrap();
                (g.faults.clone(), g.refuse)
            };
            if refuse {
                let mut g = st.lock().unwrap();
                g.sessions += 1;
                let (n, sess) = (g.log.len() + 1, g.sessions);
                g.log.push(json!({"ev": "session_end", "committed": false, "refused": true, "case": case, "session": sess, "seq": n}));
                drop(tcp);
                continue;
            }
            let (st, acceptor, case) = (st.clone(), acceptor.clone(), case.clone());
            drop(tokio::spawn(async move {
                let Ok(stream) = acceptor.accept(tcp).await else { return };
                serve_session(stream, st, faults, case, style).await;
            }));
        }
    }));
    let plain = TcpListener::bind(("127.0.0.1", 0)).await.unwrap();
    let plain_addr = plain.local_addr().unwrap();
    let (st, case) = (state.clone(), case2);
    drop(tokio::spawn(async move {
        loop {
            let Ok((tcp, _)) = plain.accept().await else { break };
            let _ = tcp.set_nodelay(true);
            let faults = st.lock().unwrap().faults.clone();
            let (st, case) = (st.clone(), case.clone());
            drop(tokio::spawn(async move {
                serve_session(tcp, st, faults, case, style).await;
            }));
        }
    }));
    FakeJunos { addr, plain_addr, state }
}

/// The connection as the session logic sees it: end-of-message framing, always.  Underneath, once both hellos
/// advertised :base:1.1, the bytes on the wire are chunked (RFC 6242 section 4.2): what the client sends is decoded,
/// what the router sends is cut into chunks of 1, 7 and the remaining bytes.
struct Wire<S> {
    s: S,
    raw: Vec<u8>,
    out: Vec<u8>,
    can11: bool,
    hello_seen: bool,
    chunked: bool,
}

impl<S: tokio::io::AsyncRead + tokio::io::AsyncWrite + Unpin> Wire<S> {
    fn new(s: S, can11: bool) -> Self {
        Wire { s, raw: Vec::new(), out: Vec::new(), can11, hello_seen: false, chunked: false }
    }

    /// one complete chunked message at the head of `raw`, decoded; None if it is not complete yet
    fn take_chunked(&mut self) -> Option<Vec<u8>> {
        let b = &self.raw;
        let mut i = 0usize;
        let mut data = Vec::new();
        loop {
            if b.len() < i + 4 {
                return None;
            }
            if &b[i..i + 2] != b"\n#" {
                // not chunked framing: hand the bytes over as they are (the session logic will not understand them)
                let all: Vec<u8> = self.raw.drain(..).collect();
                return Some(all);
            }
            if &b[i..i + 4] == b"\n##\n" {
                self.raw.drain(..i + 4);
                data.extend_from_slice(EOM.as_bytes());
                return Some(data);
            }
            let mut j = i + 2;
            while j < b.len() && b[j].is_ascii_digit() {
                j += 1;
            }
            if j >= b.len() {
                return None;
            }
            if b[j] != b'\n' {
                let all: Vec<u8> = self.raw.drain(..).collect();
                return Some(all);
            }
            let n: usize = std::str::from_utf8(&b[i + 2..j]).ok().and_then(|x| x.parse().ok()).unwrap_or(0);
            if b.len() < j + 1 + n {
                return None;
            }
            data.extend_from_slice(&b[j + 1..j + 1 + n]);
            i = j + 1 + n;
        }
    }

    async fn read(&mut self, buf: &mut [u8]) -> std::io::Result<usize> {
        loop {
            if self.out.is_empty() {
                if !self.hello_seen {
                    if let Some(pos) = self.raw.windows(EOM.len()).position(|w| w == EOM.as_bytes()) {
                        let hello: Vec<u8> = self.raw.drain(..pos + EOM.len()).collect();
                        self.hello_seen = true;
                        self.chunked = self.can11 && String::from_utf8_lossy(&hello).contains("urn:ietf:params:netconf:base:1.1");
                        self.out = hello;
                    }
                } else if !self.chunked {
                    self.out = self.raw.drain(..).collect();
                } else if let Some(m) = self.take_chunked() {
                    self.out = m;
                }
            }
            if !self.out.is_empty() {
                let n = self.out.len().min(buf.len());
                buf[..n].copy_from_slice(&self.out[..n]);
                self.out.drain(..n);
                return Ok(n);
            }
            let mut b = [0u8; 16384];
            let n = self.s.read(&mut b).await?;
            if n == 0 {
                return Ok(0);
            }
            self.raw.extend_from_slice(&b[..n]);
        }
    }

    async fn write_all(&mut self, data: &[u8]) -> std::io::Result<()> {
        if !self.chunked {
            return self.s.write_all(data).await;
        }
        let mut rest = data;
        while !rest.is_empty() {
            let (msg, complete) = match rest.windows(EOM.len()).position(|w| w == EOM.as_bytes()) {
                Some(pos) => {
                    let m = &rest[..pos];
                    rest = &rest[pos + EOM.len()..];
                    (m, true)
                }
                None => {
                    let m = rest;
                    rest = &[];
                    (m, false)
                }
            };
            // white space may follow the delimiter of the previous message (Junos writes a line feed there)
            let msg = if msg.iter().all(|c| c.is_ascii_whitespace()) { &msg[..0] } else { msg };
            // chunk data is opaque: a line of "##" inside it is not the end of the message
            let with_comment: Vec<u8>;
            let msg = match (msg.starts_with(b"<rpc-reply") && std::env::var_os("VERIF_NO_HASH_LINE").is_none(), msg.iter().position(|c| *c == b'>')) {
                (true, Some(gt)) => {
                    with_comment = [&msg[..gt + 1], b"<!-- the end of a chunked message looks like this:\n##\n-->".as_slice(), &msg[gt + 1..]].concat();
                    &with_comment[..]
                }
                _ => msg,
            };
            let mut wire = Vec::with_capacity(msg.len() + 64);
            let mut at = 0usize;
            for size in [1usize, 7, usize::MAX] {
                if at >= msg.len() {
                    break;
                }
                let n = size.min(msg.len() - at);
                wire.extend_from_slice(format!("\n#{n}\n").as_bytes());
                wire.extend_from_slice(&msg[at..at + n]);
                at += n;
            }
            if complete && !msg.is_empty() {
                wire.extend_from_slice(b"\n##\n");
            }
            self.s.write_all(&wire).await?;
        }
        Ok(())
    }

    async fn flush(&mut self) -> std::io::Result<()> {
        self.s.flush().await
    }

    async fn shutdown(&mut self) -> std::io::Result<()> {
        self.s.shutdown().await
    }
}

async fn serve_session<S: tokio::io::AsyncRead + tokio::io::AsyncWrite + Unpin>(
    stream: S,
    st: Arc<Mutex<JunosState>>,
    faults: Vec<Fault>,
    case: String,
    style: Option<crate::xmlgen::Style>,
) {
    let caps11 = st.lock().unwrap().caps11;
    let mut stream = Wire::new(stream, caps11);
    let sess = {
        let mut g = st.lock().unwrap();
        g.sessions += 1;
        g.sessions
    };
    let log = |st: &Arc<Mutex<JunosState>>, mut v: Value| {
        v["case"] = json!(case);
        v["session"] = json!(sess);
        let mut g = st.lock().unwrap();
        v["seq"] = json!(g.log.len() + 1);
        g.log.push(v);
    };
    let hello = server_hello(
        &[
            "urn:ietf:params:netconf:base:1.0",
            if caps11 { "urn:ietf:params:netconf:base:1.1" } else { "urn:ietf:params:netconf:capability:startup:1.0" },
            "urn:ietf:params:netconf:capability:candidate:1.0",
            "urn:ietf:params:netconf:capability:confirmed-commit:1.0",
            "urn:ietf:params:netconf:capability:validate:1.0",
            "urn:ietf:params:xml:ns:netconf:base:1.0",
            JUNOS_CAP,
            "http://xml.juniper.net/dmi/system/1.0",
        ],
        4000 + sess as u32,
    );
    if stream.write_all(hello.as_bytes()).await.is_err() {
        log(&st, json!({"ev": "session_end", "committed": false, "cut": true}));
        return;
    }
    let _ = stream.flush().await;
    let mut inbuf: Vec<u8> = Vec::new();
    let mut staged: Option<Eph> = None; // the open ephemeral instance of this session
    let mut nload = 0usize;
    let mut delayed: Vec<String> = Vec::new(); // failing replies held back until later loads arrived
    let mut late: Vec<String> = Vec::new(); // positive replies held back until the next request was answered
    let mut first = true;
    loop {
        // next message
        let msg = loop {
            if let Some(pos) = inbuf.windows(EOM.len()).position(|w| w == EOM.as_bytes()) {
                break Some(inbuf.drain(..pos + EOM.len()).collect::<Vec<u8>>());
            }
            let mut b = [0u8; 16384];
            // a positive reply that is being held back ("late-ok") goes out after the reply to the next request - or, if
            // the client does not pipeline and no further request comes, after a moment (then it was merely slow)
            let wait = if late.is_empty() { Duration::from_secs(30) } else { Duration::from_millis(250) };
            match tokio::time::timeout(wait, stream.read(&mut b)).await {
                Ok(Ok(n)) if n > 0 => inbuf.extend_from_slice(&b[..n]),
                Err(_) if !late.is_empty() => {
                    for r in late.drain(..) {
                        let _ = stream.write_all(r.as_bytes()).await;
                    }
                    let _ = stream.flush().await;
                }
                _ => break None,
            }
        };
        let Some(msg) = msg else {
            // flush held-back replies before the connection ends (the client may still be waiting)
            log(&st, json!({"ev": "session_end", "committed": false}));
            return;
        };
        let body = &msg[..msg.len() - EOM.len()];
        if first {
            first = false;
            if String::from_utf8_lossy(body).contains("<hello") {
                continue;
            }
        }
        let mut i = 0usize;
        let text = String::from_utf8_lossy(body).to_string();
        let trimmed = text.trim_start();
        let off = text.len() - trimmed.len();
        i += off;
        let Some(req) = parse_elem(body, &mut i) else {
            // what the agent sent is not well-formed XML: the router says so (it can usually still read the message-id)
            let id = text.split("message-id=\"").nth(1).and_then(|r| r.split('"').next()).unwrap_or("").to_string();
            log(&st, json!({"ev": "req", "kind": "unparseable", "wellformed": false, "fault": "none", "mutated": false, "id": id,
                            "raw": text.chars().take(300).collect::<String>()}));
            if !id.is_empty() && id.chars().all(|c| c.is_ascii_digit()) {
                let r = format!("<rpc-reply message-id=\"{id}\" xmlns=\"{BASE_NS}\"><rpc-error><error-type>rpc</error-type><error-tag>malformed-message</error-tag><error-severity>error</error-severity><error-message>syntax error in the request</error-message></rpc-error></rpc-reply>{EOM}");
                if stream.write_all(r.as_bytes()).await.is_err() {
                    break;
                }
            }
            continue;
        };
        let id = req.attr("message-id").unwrap_or("0").to_string();
        let kind = kind_of(&req);
        if kind == "load" {
            nload += 1;
        }
        let mut ev = json!({"ev": "req", "kind": kind, "id": id});
        let fault = faults
            .iter()
            .find(|f| f.target == kind && (f.index == 0 || kind != "load" || f.index == nload))
            .cloned();
        // a damaged reply (C14): the router did what was asked, only its answer is garbage
        let mutated = fault.as_ref().map_or(false, |f| f.kind.starts_with("mut:"));
        ev["mutated"] = json!(mutated);
        // a reply that is merely overtaken by the next one is no fault: the router does what was asked
        let late_ok = fault.as_ref().map_or(false, |f| f.kind == "late-ok");
        // what the request means
        let mut reply_body = String::new();
        match kind.as_str() {
            "open" => {
                let inst = req.children[0]
                    .child("ephemeral-instance")
                    .map(|e| e.t())
                    .or_else(|| req.children[0].child("ephemeral").map(|_| "<default>".to_string()))
                    .unwrap_or_else(|| "<private>".into());
                ev["instance"] = json!(inst);
                if fault.is_none() || mutated || late_ok {
                    staged = Some(st.lock().unwrap().eph.clone());
                }
            }
            "get-running" => {
                let rendered = render_running(&st.lock().unwrap().running);
                match apply_get_filter(&req, &rendered) {
                    Ok(x) => reply_body = format!("<data>{x}</data>"),
                    Err(e) => {
                        log(&st, json!({"ev": "tool_error", "what": e}));
                        reply_body = format!("<data>{rendered}</data>");
                    }
                }
            }
            "get-candidate" => {
                // without an open ephemeral instance the candidate is the static one: no ephemeral data in it
                let e = staged.clone().unwrap_or_default();
                ev["db_open"] = json!(staged.is_some());
                match apply_get_filter(&req, &render_eph(&e)) {
                    Ok(x) => reply_body = format!("<data>{x}</data>"),
                    Err(err) => {
                        log(&st, json!({"ev": "tool_error", "what": err}));
                        reply_body = format!("<data>{}</data>", render_eph(&e));
                    }
                }
            }
            "load" => {
                let lc = &req.children[0];
                ev["action"] = json!(lc.attr("action").unwrap_or(""));
                ev["format"] = json!(lc.attr("format").unwrap_or(""));
                ev["nload"] = json!(nload);
                ev["db_open"] = json!(staged.is_some());
                let installed: Vec<String> = staged.as_ref().map(|s| s.iter().map(|(n, _)| n.clone()).collect()).unwrap_or_default();
                let upd = lc.child("configuration").map(|c| project_update_in(c, &installed)).unwrap_or_else(|| {
                    json!({"policies": [], "foreign": lc.children.iter().map(|c| format!("/{}", c.name)).collect::<Vec<_>>()})
                });
                ev["update"] = upd.clone();
                {
                    let mut fs = update_filters(&upd);
                    if let Some(st0) = staged.as_ref() {
                        fs.extend(eph_filters(st0));
                    }
                    ev["den"] = den_map(fs);
                }
                // every kind of fault but these leaves the request unexecuted (a damaged reply, "mut:", is sent after the
                // request was carried out)
                let failing = !matches!(fault.as_ref().map(|f| f.kind.as_str()), None | Some("none") | Some("close-after") | Some("late-ok") | Some("junos-error"))
                    && !fault.as_ref().is_some_and(|f| f.kind.starts_with("mut:"));
                if !failing {
                    if let Some(s) = staged.as_mut() {
                        // override / update: what is loaded becomes the whole configuration of the instance
                        if matches!(lc.attr("action"), Some("override") | Some("update")) {
                            s.clear();
                        }
                        apply_update(s, &upd);
                        ev["state"] = eph_to_json(s);
                    }
                }
                reply_body = "<load-configuration-results><ok/></load-configuration-results>".into();
            }
            "commit" => {
                ev["db_open"] = json!(staged.is_some());
                // <check/> only validates, <confirmed/> is rolled back unless confirmed by a second commit
                let cc = &req.children[0];
                let effective = cc.child("check").is_none() && cc.child("confirmed").is_none();
                ev["effective"] = json!(effective);
                if (fault.is_none() || mutated || late_ok) && effective {
                    if let Some(s) = staged.clone() {
                        st.lock().unwrap().eph = s;
                    }
                    ev["committed"] = json!(true);
                    ev["state"] = eph_to_json(&st.lock().unwrap().eph);
                }
                reply_body = "<ok/>".into();
            }
            "close-db" => {
                staged = None;
            }
            "close-session" => {
                reply_body = "<ok/>".into();
            }
            _ => {
                reply_body = RPC_ERROR.into();
            }
        }
        let fk = fault.as_ref().map(|f| f.kind.clone()).unwrap_or_else(|| "none".into());
        ev["fault"] = json!(fk);
        log(&st, ev);
        let ok_reply = format!("<rpc-reply message-id=\"{id}\" xmlns=\"{BASE_NS}\" xmlns:junos=\"http://xml.juniper.net/junos/23.1R0/junos\">{reply_body}</rpc-reply>{EOM}");
        // the same positive reply in another, information-equivalent serialisation (C13)
        let ok_reply = match &style {
            Some(sty) => {
                let body = &ok_reply[..ok_reply.len() - EOM.len()];
                match crate::xmlgen::restyle(body, sty, &["family", "choice-ident", "address", "choice-value"]) {
                    Ok(r) => format!("{r}{EOM}"),
                    Err(e) => {
                        log(&st, json!({"ev": "tool_error", "what": format!("restyle: {e}")}));
                        ok_reply
                    }
                }
            }
            None => ok_reply,
        };
        let err_reply = if kind == "load" {
            format!("<rpc-reply message-id=\"{id}\" xmlns=\"{BASE_NS}\"><load-configuration-results>{RPC_ERROR}<load-error-count>1</load-error-count></load-configuration-results></rpc-reply>{EOM}")
        } else {
            format!("<rpc-reply message-id=\"{id}\" xmlns=\"{BASE_NS}\">{RPC_ERROR}</rpc-reply>{EOM}")
        };
        if let Some(how) = fk.strip_prefix("mut:") {
            let raw = mutate_reply(&ok_reply, how);
            if stream.write_all(&raw).await.is_err() {
                log(&st, json!({"ev": "session_end", "committed": false, "cut": true}));
                return;
            }
            let _ = stream.flush().await;
            continue;
        }
        let to_send: Vec<String> = match fk.as_str() {
            "none" => vec![ok_reply],
            "rpc-error" => vec![err_reply],
            "delayed-error" => {
                // released only after a later request arrived (pipelined loads)
                delayed.push(err_reply);
                vec![]
            }
            // other shapes of a negative answer: the error next to the positive indication (either order), after a
            // warning, and with the base namespace bound to a prefix
            "error+ok" | "ok+error" | "warning+error" | "error+warning" | "error+warning+warning" => {
                let warning = RPC_ERROR.replace("<error-severity>error</error-severity>", "<error-severity>warning</error-severity>");
                let inner = match fk.as_str() {
                    "error+ok" => format!("{RPC_ERROR}<ok/>"),
                    "ok+error" => format!("<ok/>{RPC_ERROR}"),
                    "error+warning" => format!("{RPC_ERROR}{warning}"),
                    "error+warning+warning" => format!("{RPC_ERROR}{warning}{warning}"),
                    _ => format!("{warning}{RPC_ERROR}"),
                };
                if kind == "load" {
                    vec![format!("<rpc-reply message-id=\"{id}\" xmlns=\"{BASE_NS}\"><load-configuration-results>{inner}</load-configuration-results></rpc-reply>{EOM}")]
                } else {
                    vec![format!("<rpc-reply message-id=\"{id}\" xmlns=\"{BASE_NS}\">{inner}</rpc-reply>{EOM}")]
                }
            }
            "prefixed-error" => {
                let e = RPC_ERROR.replace("<rpc-error>", "<nc:rpc-error>").replace("</rpc-error>", "</nc:rpc-error>")
                    .replace("<error-", "<nc:error-").replace("</error-", "</nc:error-");
                if kind == "load" {
                    vec![format!("<nc:rpc-reply message-id=\"{id}\" xmlns:nc=\"{BASE_NS}\"><nc:load-configuration-results>{e}<nc:load-error-count>1</nc:load-error-count></nc:load-configuration-results></nc:rpc-reply>{EOM}")]
                } else {
                    vec![format!("<nc:rpc-reply message-id=\"{id}\" xmlns:nc=\"{BASE_NS}\">{e}</nc:rpc-reply>{EOM}")]
                }
            }
            // an error with another error-tag of RFC 6241 appendix A (what it is called does not make it less of an error)
            t if t.starts_with("tag:") => {
                let e = RPC_ERROR.replace("<error-tag>operation-failed</error-tag>", &format!("<error-tag>{}</error-tag>", &t[4..]));
                if kind == "load" {
                    vec![format!("<rpc-reply message-id=\"{id}\" xmlns=\"{BASE_NS}\"><load-configuration-results>{e}<load-error-count>1</load-error-count></load-configuration-results></rpc-reply>{EOM}")]
                } else {
                    vec![format!("<rpc-reply message-id=\"{id}\" xmlns=\"{BASE_NS}\">{e}</rpc-reply>{EOM}")]
                }
            }
            // neither a positive indication nor an error: results that only count zero errors
            "no-ok-count0" if kind == "load" => vec![format!("<rpc-reply message-id=\"{id}\" xmlns=\"{BASE_NS}\"><load-configuration-results><load-error-count>0</load-error-count></load-configuration-results></rpc-reply>{EOM}")],
            "no-ok-count0" => vec![format!("<rpc-reply message-id=\"{id}\" xmlns=\"{BASE_NS}\"></rpc-reply>{EOM}")],
            "malformed" => vec![format!("<rpc-reply message-id=\"{id}\" xmlns=\"{BASE_NS}\"><ok></rpc-reply>{EOM}")],
            "no-ok" => vec![format!("<rpc-reply message-id=\"{id}\" xmlns=\"{BASE_NS}\"></rpc-reply>{EOM}")],
            // the negative answer to a commit in Junos' own shape: the error sits inside <routing-engine>
            "junos-error" => vec![format!("<rpc-reply message-id=\"{id}\" xmlns=\"{BASE_NS}\"><commit-results><routing-engine><name>re0</name>{RPC_ERROR}</routing-engine></commit-results></rpc-reply>{EOM}")],
            "wrong-id" => vec![ok_reply.replacen(&format!("message-id=\"{id}\""), "message-id=\"9999\"", 1)],
            "close-before" => {
                log(&st, json!({"ev": "srv_close", "when": "before-reply", "kind": kind}));
                let _ = stream.shutdown().await;
                log(&st, json!({"ev": "session_end", "committed": false, "cut": true}));
                return;
            }
            "close-after" => vec![ok_reply],
            // replies may overtake each other: this one is sent after the reply to the next request
            "late-ok" if kind != "close-session" => {
                late.push(ok_reply);
                vec![]
            }
            _ => vec![ok_reply],
        };
        let to_send: Vec<String> = if fk != "late-ok" && !late.is_empty() {
            let mut v = to_send;
            v.append(&mut late);
            v
        } else {
            to_send
        };
        let released: Vec<String> = if fk != "delayed-error" && !delayed.is_empty() {
            // a later request arrived: answer it first, then release the held-back failure
            let mut v = to_send.clone();
            v.append(&mut delayed);
            v
        } else {
            to_send
        };
        for r in released {
            if stream.write_all(r.as_bytes()).await.is_err() {
                log(&st, json!({"ev": "session_end", "committed": false, "cut": true}));
                return;
            }
            let _ = stream.flush().await;
        }
        if fk == "close-after" {
            log(&st, json!({"ev": "srv_close", "when": "after-reply", "kind": kind}));
            let _ = stream.shutdown().await;
            log(&st, json!({"ev": "session_end", "committed": false, "cut": true}));
            return;
        }
        if kind == "close-session" {
            let _ = stream.shutdown().await;
            log(&st, json!({"ev": "session_end", "clean": true}));
            return;
        }
    }
}
