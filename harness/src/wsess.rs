//! A real `netconf::Session` over the in-memory transport, driven synchronously: every call
//! polls the library future with a no-op waker until it is ready; "still pending after the
//! reply was queued" is reported as a hang instead of blocking.
use std::task::Poll;

use netconf::Session;

use crate::{
    memtransport::{mem_transport, MemCtl, MemTransport},
    util::*,
};

/// When set, `call_rpc!` lets ANOTHER request's reply future take the reply under test off the transport and park it
/// for its owner before the owner looks: every reply type must survive being handed over.
pub static PARKED: std::sync::atomic::AtomicBool = std::sync::atomic::AtomicBool::new(false);

pub struct WSess {
    pub session: Session<MemTransport>,
    pub ctl: MemCtl,
}

/// Outcome of driving a future that should be immediately ready.
pub enum Driven<T> {
    Ready(T),
    Hung,
}

pub fn drive<T>(fut: &mut LBoxFut<'_, T>, max_polls: usize) -> Driven<T> {
    for _ in 0..max_polls {
        if let Poll::Ready(v) = poll_once(fut) {
            return Driven::Ready(v);
        }
    }
    Driven::Hung
}

pub const ALL_CAPS: &[&str] = &[
    "urn:ietf:params:netconf:base:1.0",
    "urn:ietf:params:netconf:capability:writable-running:1.0",
    "urn:ietf:params:netconf:capability:candidate:1.0",
    "urn:ietf:params:netconf:capability:confirmed-commit:1.0",
    "urn:ietf:params:netconf:capability:confirmed-commit:1.1",
    "urn:ietf:params:netconf:capability:rollback-on-error:1.0",
    "urn:ietf:params:netconf:capability:validate:1.0",
    "urn:ietf:params:netconf:capability:validate:1.1",
    "urn:ietf:params:netconf:capability:startup:1.0",
    "urn:ietf:params:netconf:capability:url:1.0?scheme=file,http,ftp",
    "urn:ietf:params:netconf:capability:xpath:1.0",
    JUNOS_CAP,
];

impl WSess {
    /// Establish a session whose server hello is the given raw message (with delimiter).
    pub fn with_hello(hello: String) -> Result<WSess, netconf::Error> {
        let (t, ctl) = mem_transport();
        ctl.push(hello);
        let mut est: BoxFut<Result<Session<MemTransport>, netconf::Error>> =
            Box::pin(Session::verif_with_transport(t));
        match drive(&mut est, 8) {
            Driven::Ready(r) => r.map(|session| WSess { session, ctl }),
            Driven::Hung => Err(netconf::Error::DequeueMessage),
        }
    }

    pub fn with_caps(caps: &[&str]) -> WSess {
        Self::with_hello(server_hello(caps, 7)).expect("harness: session establishment")
    }

    /// message-id of the newest request on the wire
    pub fn last_id(&self) -> u64 {
        self.ctl
            .sent()
            .last()
            .and_then(|m| message_id_of(m))
            .unwrap_or(0)
    }
}

/// Issue one RPC on `$ws` with builder closure `$build`, answer it with `$reply(id) -> String`
/// (the raw reply message incl. delimiter) and evaluate to
/// `(sent: bool, outcome: Result<Result<Ok, netconf::Error>, &'static str>)` where the outer Err is
/// "local:<class>" (nothing sent) or "hang".
#[macro_export]
macro_rules! call_rpc {
    ($ws:expr, $op:ty, $build:expr, $reply:expr) => {{
        let before = $ws.ctl.sent_len();
        let mut outer: $crate::util::LBoxFut<'_, _> = Box::pin($ws.session.rpc::<$op, _>($build));
        let r = match $crate::wsess::drive(&mut outer, 8) {
            $crate::wsess::Driven::Ready(r) => Some(r),
            $crate::wsess::Driven::Hung => None,
        };
        drop(outer);
        let sent = $ws.ctl.sent_len() > before;
        match r {
            None => (sent, Err("hang-in-rpc".to_string())),
            Some(Err(e)) => (sent, Err(format!("local:{}:{}", $crate::util::err_class(&e), e))),
            Some(Ok(fut)) => {
                let id = $ws.last_id();
                let reply: Option<String> = $reply(id);
                if let Some(reply) = reply {
                    $ws.ctl.push(reply);
                }
                if $crate::wsess::PARKED.load(std::sync::atomic::Ordering::Relaxed) {
                    let mut o2: $crate::util::LBoxFut<'_, _> =
                        Box::pin($ws.session.rpc::<netconf::message::rpc::operation::Get, _>(|b| netconf::message::rpc::operation::Builder::finish(b.filter(None))));
                    let f2 = match $crate::wsess::drive(&mut o2, 8) {
                        $crate::wsess::Driven::Ready(Ok(f)) => Some(f),
                        _ => None,
                    };
                    drop(o2);
                    if let Some(f2) = f2 {
                        let id2 = $ws.last_id();
                        $ws.ctl.push(format!("<rpc-reply message-id=\"{id2}\" xmlns=\"{}\"><data/></rpc-reply>{}", $crate::util::BASE_NS, $crate::util::EOM));
                        let mut b2: $crate::util::LBoxFut<'_, _> = Box::pin(f2);
                        let _ = $crate::wsess::drive(&mut b2, 16);
                    }
                }
                let mut inner: $crate::util::LBoxFut<'_, _> = Box::pin(fut);
                match $crate::wsess::drive(&mut inner, 16) {
                    $crate::wsess::Driven::Ready(r) => (sent, Ok(r)),
                    $crate::wsess::Driven::Hung => (sent, Err("hang".to_string())),
                }
            }
        }
    }};
}
