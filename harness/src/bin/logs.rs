//! C20: credentials never appear in log output.  Connection attempts of every kind are made with
//! a capturing TRACE-level subscriber installed; every captured line emitted by this repository's
//! crates is searched for the secret in clear and in trivially encoded forms.  The agent binary is
//! run with maximum verbosity and its stderr searched likewise.
use std::{
    io::Write,
    sync::{Arc, Mutex},
    time::Duration,
};

use async_trait::async_trait;
use netconf::Session;
use serde_json::{json, Value};
use tokio::{io::AsyncWriteExt, net::TcpListener, time::timeout};
use tracing_subscriber::fmt::{format::FmtSpan, MakeWriter};
use vh::util::*;

#[derive(Clone)]
struct Buf(Arc<Mutex<Vec<u8>>>);
impl Write for Buf {
    fn write(&mut self, b: &[u8]) -> std::io::Result<usize> {
        self.0.lock().unwrap().extend_from_slice(b);
        Ok(b.len())
    }
    fn flush(&mut self) -> std::io::Result<()> {
        Ok(())
    }
}
impl<'a> MakeWriter<'a> for Buf {
    type Writer = Buf;
    fn make_writer(&'a self) -> Buf {
        self.clone()
    }
}

fn b64(data: &[u8]) -> String {
    const T: &[u8; 64] = b"ABCDEFGHIJKLMNOPQRSTUVWXYZabcdefghijklmnopqrstuvwxyz0123456789+/";
    let mut s = String::new();
    for c in data.chunks(3) {
        let n = (c[0] as u32) << 16 | (*c.get(1).unwrap_or(&0) as u32) << 8 | *c.get(2).unwrap_or(&0) as u32;
        s.push(T[(n >> 18) as usize & 63] as char);
        s.push(T[(n >> 12) as usize & 63] as char);
        s.push(if c.len() > 1 { T[(n >> 6) as usize & 63] as char } else { '=' });
        s.push(if c.len() > 2 { T[n as usize & 63] as char } else { '=' });
    }
    s
}

/// forms in which a secret would be recognisable in a log line: (name, needle)
fn forms(secret: &[u8], text: Option<&str>) -> Vec<(String, String)> {
    let mut v = Vec::new();
    if let Some(t) = text {
        v.push(("clear".into(), t.to_string()));
        let dbg = format!("{t:?}");
        v.push(("debug-escaped".into(), dbg[1..dbg.len() - 1].to_string()));
        // a partly masked secret is still a leak: every run of 6 consecutive characters counts
        let chars: Vec<char> = t.chars().collect();
        if chars.len() > 6 {
            for w in chars.windows(6) {
                let frag: String = w.iter().collect();
                if frag.chars().filter(|c| c.is_alphanumeric()).count() >= 5 {
                    v.push(("clear-fragment".into(), frag));
                }
            }
        }
    }
    // windows of the secret at every fourth offset, so that a dump of any part of it is found
    let win = |n: usize| -> Vec<&[u8]> {
        if secret.len() <= n {
            vec![secret]
        } else {
            let mut v: Vec<&[u8]> = (0..=secret.len() - n).step_by(4).map(|i| &secret[i..i + n]).collect();
            v.push(&secret[secret.len() - n..]);
            v
        }
    };
    for w in win(12) {
        v.push(("hex".into(), w.iter().map(|b| format!("{b:02x}")).collect::<String>()));
        v.push(("HEX".into(), w.iter().map(|b| format!("{b:02X}")).collect::<String>()));
        v.push(("byte-list".into(), w.iter().map(|b| b.to_string()).collect::<Vec<_>>().join(", ")));
        v.push(("byte-list-compact".into(), w.iter().map(|b| b.to_string()).collect::<Vec<_>>().join(",")));
    }
    for w in win(24) {
        // base64 of the window at the three possible alignments
        for skip in 0..3 {
            if w.len() > skip + 9 {
                let e = b64(&w[skip..]);
                let core = e.trim_end_matches('=');
                let core = &core[..core.len() - core.len() % 4];
                if core.len() >= 12 {
                    v.push(("base64".into(), core[..core.len().min(28)].to_string()));
                }
            }
        }
    }
    v.retain(|(_, n)| n.len() >= 6);
    v
}

fn search(log: &str, needles: &[(String, String)], own_only: bool) -> Vec<Value> {
    let mut leaks = Vec::new();
    for line in log.lines() {
        // lines of this repository's crates, and of the SSH client side they drive (records that reach the
        // subscriber only if the library itself bridges `log` into `tracing`); the in-process test server's
        // own lines are not the client's doing
        if own_only && !(line.contains("netconf") || line.contains("bgpfu") || line.contains("russh::client")) {
            continue;
        }
        for (form, n) in needles {
            if line.contains(n.as_str()) {
                leaks.push(json!({"form": form, "line": line.chars().take(240).collect::<String>()}));
                break;
            }
        }
    }
    leaks
}

/// The part of a private key (DER) that is secret, by kind of key: what must not show up in a log.  The rest (version,
/// algorithm identifiers, the public key that is embedded once more) may.
fn secret_part(class: &str, der: &[u8], public: &[u8]) -> Vec<u8> {
    let find = |hay: &[u8], needle: &[u8]| hay.windows(needle.len()).position(|w| w == needle);
    if class.starts_with("ec-") {
        // ECPrivateKey ::= SEQUENCE { version 1, privateKey OCTET STRING, ... } (bare, or inside a PKCS#8 OCTET STRING)
        if let Some(p) = find(der, &[0x02, 0x01, 0x01, 0x04]) {
            let len = der[p + 4] as usize;
            if len < 0x80 && p + 5 + len <= der.len() {
                return der[p + 5..p + 5 + len].to_vec();
            }
        }
    }
    if class.starts_with("ed25519") && der.len() >= 32 {
        return der[der.len() - 32..].to_vec();
    }
    // RSA: everything that is not also part of the certificate (the modulus is) and not the header
    let mut out = Vec::new();
    let mut i = 24.min(der.len());
    while i < der.len() {
        let end = (i + 12).min(der.len());
        if end - i == 12 && find(public, &der[i..end]).is_some() {
            // a stretch the certificate has as well: public; start a new run behind it (a zero byte separates the runs so
            // that no window spans the gap)
            out.push(0);
            i += 12;
        } else {
            out.push(der[i]);
            i += 1;
        }
    }
    out
}

/// key files of other kinds than the RSA PKCS#8 one of the test PKI (fixtures/pki/keys)
fn key_path(class: &str) -> std::path::PathBuf {
    match class {
        "ec-p521-sec1" | "ec-p256-sec1" | "ec-secp256k1-sec1" | "ec-p384-pkcs8" | "ed25519-pkcs8" | "rsa-pkcs1" => pki(&format!("keys/{class}.key")),
        _ => pki("client.key"),
    }
}

fn key_der_of(path: &std::path::Path) -> Vec<u8> {
    rustls_pemfile::private_key(&mut std::io::BufReader::new(std::fs::File::open(path).unwrap_or_else(|e| panic!("{}: {e}", path.display())))).unwrap().unwrap().secret_der().to_vec()
}

// ---- peers ----
struct SshSrv {
    accept_auth: bool,
    hello: bool,
    /// a server that offers keyboard-interactive only (PAM, RADIUS, token back-ends): the prompts it sends, each
    /// with the flag "echo the answer" (RFC 4256 leaves the flag to the server)
    kbd: Option<Vec<(&'static str, bool)>>,
}
#[async_trait]
impl russh::server::Handler for SshSrv {
    type Error = anyhow::Error;
    async fn auth_password(self, _: &str, _: &str) -> Result<(Self, russh::server::Auth), Self::Error> {
        if self.kbd.is_some() {
            return Ok((self, russh::server::Auth::Reject { proceed_with_methods: Some(russh::MethodSet::KEYBOARD_INTERACTIVE) }));
        }
        let a = if self.accept_auth { russh::server::Auth::Accept } else { russh::server::Auth::Reject { proceed_with_methods: None } };
        Ok((self, a))
    }
    async fn auth_keyboard_interactive(self, _: &str, _: &str, response: Option<russh::server::Response<'async_trait>>) -> Result<(Self, russh::server::Auth), Self::Error> {
        let Some(prompts) = self.kbd.clone() else {
            return Ok((self, russh::server::Auth::Reject { proceed_with_methods: None }));
        };
        let a = match response {
            None => russh::server::Auth::Partial {
                name: "".into(),
                instructions: "".into(),
                prompts: prompts.iter().map(|(p, e)| (std::borrow::Cow::Borrowed(*p), *e)).collect::<Vec<_>>().into(),
            },
            // whatever is answered is accepted: what matters is what the client wrote into its log on the way
            Some(_) => russh::server::Auth::Accept,
        };
        Ok((self, a))
    }
    async fn channel_open_session(self, _: russh::Channel<russh::server::Msg>, s: russh::server::Session) -> Result<(Self, bool, russh::server::Session), Self::Error> {
        Ok((self, true, s))
    }
    async fn subsystem_request(self, channel: russh::ChannelId, _: &str, mut session: russh::server::Session) -> Result<(Self, russh::server::Session), Self::Error> {
        session.channel_success(channel);
        if self.hello {
            let h = session.handle();
            let hello = server_hello(&["urn:ietf:params:netconf:base:1.0"], 9);
            drop(tokio::spawn(async move {
                let _ = h.data(channel, russh::CryptoVec::from_slice(hello.as_bytes())).await;
            }));
        } else {
            session.close(channel);
        }
        Ok((self, session))
    }
}

async fn ssh_server(accept_auth: bool, hello: bool) -> std::net::SocketAddr {
    ssh_server_kbd(accept_auth, hello, None).await
}

async fn ssh_server_kbd(accept_auth: bool, hello: bool, kbd: Option<Vec<(&'static str, bool)>>) -> std::net::SocketAddr {
    let config = Arc::new(russh::server::Config {
        auth_rejection_time: Duration::from_millis(5),
        auth_rejection_time_initial: Some(Duration::ZERO),
        keys: vec![russh_keys::key::KeyPair::generate_ed25519().unwrap()],
        ..Default::default()
    });
    let l = TcpListener::bind(("127.0.0.1", 0)).await.unwrap();
    let addr = l.local_addr().unwrap();
    drop(tokio::spawn(async move {
        if let Ok((s, _)) = l.accept().await {
            if let Ok(r) = russh::server::run_stream(config, s, SshSrv { accept_auth, hello, kbd }).await {
                let _ = timeout(Duration::from_secs(5), r).await;
            }
        }
    }));
    addr
}

fn pki(name: &str) -> std::path::PathBuf {
    std::path::Path::new(&std::env::var("VERIF_PKI").unwrap_or_else(|_| "/verif/fixtures/pki".into())).join(name)
}

async fn tls_server(stage: &str) -> std::net::SocketAddr {
    use tokio_rustls::rustls;
    let l = TcpListener::bind(("127.0.0.1", 0)).await.unwrap();
    let addr = l.local_addr().unwrap();
    let stage = stage.to_string();
    drop(tokio::spawn(async move {
        let Ok((mut tcp, _)) = l.accept().await else { return };
        if stage == "handshake-fails" {
            let _ = tcp.write_all(b"this is not TLS\r\n").await;
            return;
        }
        let certs: Vec<_> = rustls_pemfile::certs(&mut std::io::BufReader::new(std::fs::File::open(pki("server.crt")).unwrap())).collect::<Result<_, _>>().unwrap();
        let key = rustls_pemfile::private_key(&mut std::io::BufReader::new(std::fs::File::open(pki("server.key")).unwrap())).unwrap().unwrap();
        let cfg = rustls::ServerConfig::builder().with_no_client_auth().with_single_cert(certs, key).unwrap();
        if let Ok(mut s) = tokio_rustls::TlsAcceptor::from(Arc::new(cfg)).accept(tcp).await {
            if stage == "established" {
                let _ = s.write_all(server_hello(&["urn:ietf:params:netconf:base:1.0"], 9).as_bytes()).await;
                let _ = s.flush().await;
                tokio::time::sleep(Duration::from_millis(300)).await;
            }
        }
    }));
    addr
}

fn closed_port() -> std::net::SocketAddr {
    let l = std::net::TcpListener::bind(("127.0.0.1", 0)).unwrap();
    l.local_addr().unwrap()
}

fn main() {
    let args: Vec<String> = std::env::args().collect();
    let cases: Vec<Value> = serde_json::from_str::<Value>(&std::fs::read_to_string(&args[1]).expect("cases")).expect("json")["cases"]
        .as_array()
        .cloned()
        .unwrap_or_default();
    let agent = args.get(2).cloned().unwrap_or_default();
    let buf = Buf(Arc::new(Mutex::new(Vec::new())));
    // installed WITHOUT the `log` -> `tracing` bridge that `.init()` would add: records of dependencies that use the
    // `log` facade (russh, rustls) reach this subscriber only if the library under test bridges them itself
    let subscriber = tracing_subscriber::fmt()
        .with_max_level(tracing::Level::TRACE)
        .with_span_events(FmtSpan::FULL)
        .with_ansi(false)
        .with_writer(buf.clone())
        .finish();
    tracing::subscriber::set_global_default(subscriber).expect("subscriber");
    let rt = tokio::runtime::Builder::new_multi_thread().worker_threads(4).enable_all().build().unwrap();
    let key_der: Vec<u8> = key_der_of(&pki("client.key"));
    let cert_der: Vec<u8> = rustls_pemfile::certs(&mut std::io::BufReader::new(std::fs::File::open(pki("client.crt")).unwrap())).next().unwrap().unwrap().to_vec();
    let stdout = std::io::stdout();
    for (k, c) in cases.iter().enumerate() {
        let transport = c["transport"].as_str().unwrap_or("");
        let stage = c["stage"].as_str().unwrap_or("");
        let class = c["secret"].as_str().unwrap_or("plain");
        buf.0.lock().unwrap().clear();
        let password = match class {
            "quotes" => "p\"a ss'w\\d".to_string(),
            "nonascii" => "\u{41c}\u{43e}\u{439}\u{41f}\u{430}\u{440}\u{43e}\u{43b}\u{44c}-\u{6f22}\u{5b57}".to_string(),
            "long" => "correct horse battery staple 0123456789 abcdefghijklmnopqrstuvwxyz".to_string(),
            // values that other conventions give a meaning to: @file, option, format string, shell, path, URL, JSON
            "at-prefix" => "@Xk29/qpz-Tr0ub4dor-c4e8".to_string(),
            "dash-prefix" => "--p4ssw0rd=-Zx81-kkQ".to_string(),
            "format" => "100%s%x%n{}{0}{:?}-Qw7".to_string(),
            "shell" => "$HOME${PATH}`id`;Jq3-Xw8vT".to_string(),
            "path-like" => "/etc/ssl/prv/Hq7-Rm2cY.key".to_string(),
            "url-like" => "file:///var/db/Kz5-Pn6dU?x=1#frag".to_string(),
            "json-like" => "{\"k\": \"Vb9-Zt4qG\", \"n\": [1, 2]}".to_string(),
            "multiline" => "frst-Lw2-Gh5kE\nscnd lne\ttbbd".to_string(),
            _ => "hunter2-S3cr3tPass".to_string(),
        };
        let mut ev = json!({"ev": "log", "case": k, "c": c});
        let (log, needles, own_only) = match transport {
            "ssh" => {
                let pw = password.clone();
                let stage2 = stage.to_string();
                let outcome = rt.block_on(async move {
                    let addr = match stage2.as_str() {
                        "refused" => closed_port(),
                        "auth-fails" => ssh_server(false, false).await,
                        "hello-fails" => ssh_server(true, false).await,
                        "kbd-hidden" => ssh_server_kbd(true, true, Some(vec![("Password: ", false)])).await,
                        "kbd-login-then-password" => ssh_server_kbd(true, true, Some(vec![("login: ", true), ("Password: ", false)])).await,
                        "kbd-echoed-passcode" => ssh_server_kbd(true, true, Some(vec![("Enter PASSCODE: ", true)])).await,
                        "kbd-echoed-odd-prompts" => ssh_server_kbd(true, true, Some(vec![("Account: ", true), ("Secret for operator: ", true), ("Token (optional): ", true)])).await,
                        _ => ssh_server(true, true).await,
                    };
                    match timeout(Duration::from_secs(6), Session::ssh(addr, "operator".to_string(), pw.parse().unwrap())).await {
                        Err(_) => "timeout".to_string(),
                        Ok(Ok(_)) => "established".to_string(),
                        Ok(Err(e)) => format!("err:{}", err_class(&e)),
                    }
                });
                ev["outcome"] = json!(outcome);
                (String::from_utf8_lossy(&buf.0.lock().unwrap()).to_string(), forms(password.as_bytes(), Some(&password)), true)
            }
            "tls" => {
                let stage2 = stage.to_string();
                let class2 = class.to_string();
                let outcome = rt.block_on(async move {
                    let addr = match stage2.as_str() {
                        "refused" => closed_port(),
                        s => tls_server(s).await,
                    };
                    let one = |n: &str| rustls_pemfile::certs(&mut std::io::BufReader::new(std::fs::File::open(pki(n)).unwrap())).next().unwrap().unwrap();
                    let key = rustls_pemfile::private_key(&mut std::io::BufReader::new(std::fs::File::open(key_path(&class2)).unwrap())).unwrap().unwrap();
                    match timeout(Duration::from_secs(6), Session::tls(addr, "localhost", one("ca.crt"), one("client.crt"), key)).await {
                        Err(_) => "timeout".to_string(),
                        Ok(Ok(_)) => "established".to_string(),
                        Ok(Err(e)) => format!("err:{}", err_class(&e)),
                    }
                });
                ev["outcome"] = json!(outcome);
                let cls = class;
                let der = key_der_of(&key_path(cls));
                (String::from_utf8_lossy(&buf.0.lock().unwrap()).to_string(), forms(&secret_part(cls, &der, &cert_der), None), true)
            }
            "agent-daemon" => {
                // ONE agent process in daemon mode: a job that gets its session and succeeds, then the router is gone and
                // the next job (started by SIGHUP) fails to connect; everything the process wrote is searched
                let agent2 = agent.clone();
                let text = rt.block_on(async move {
                    use tokio_rustls::rustls;
                    use vh::fakes::{start_junos, Eph};
                    let certs: Vec<_> = rustls_pemfile::certs(&mut std::io::BufReader::new(std::fs::File::open(pki("server.crt")).unwrap())).collect::<Result<_, _>>().unwrap();
                    let key = rustls_pemfile::private_key(&mut std::io::BufReader::new(std::fs::File::open(pki("server.key")).unwrap())).unwrap().unwrap();
                    let cfg = rustls::ServerConfig::builder().with_no_client_auth().with_single_cert(certs, key).unwrap();
                    let acceptor = tokio_rustls::TlsAcceptor::from(Arc::new(cfg));
                    let junos = start_junos(json!([]), Eph::default(), vec![], acceptor, "c20".into(), None).await;
                    let mut child = tokio::process::Command::new(&agent2)
                        .args(["-f", "1", "-vvvv", "--irrd-host", "127.0.0.1", "--irrd-port", "1", "remote", "--netconf-host", "127.0.0.1",
                               "--netconf-port", &junos.addr.port().to_string(), "--ca-cert-path", pki("ca.crt").to_str().unwrap(),
                               "--client-cert-path", pki("client.crt").to_str().unwrap(), "--client-key-path", pki("client.key").to_str().unwrap(),
                               "--tls-server-name", "localhost"])
                        .env("RUST_LOG", "trace")
                        .stdin(std::process::Stdio::null())
                        .stdout(std::process::Stdio::null())
                        .stderr(std::process::Stdio::piped())
                        .kill_on_drop(true)
                        .spawn()
                        .expect("spawn agent");
                    let pid = child.id().unwrap_or(0) as i32;
                    let errbuf: Arc<Mutex<Vec<u8>>> = Arc::new(Mutex::new(Vec::new()));
                    if let Some(mut pipe) = child.stderr.take() {
                        let errbuf = errbuf.clone();
                        drop(tokio::spawn(async move {
                            use tokio::io::AsyncReadExt;
                            let mut b = [0u8; 16384];
                            while let Ok(n) = pipe.read(&mut b).await {
                                if n == 0 {
                                    break;
                                }
                                errbuf.lock().unwrap().extend_from_slice(&b[..n]);
                            }
                        }));
                    }
                    let sessions = |j: &vh::fakes::FakeJunos| j.state.lock().unwrap().log.iter().filter(|e| e["ev"] == "session_end").count();
                    let until = std::time::Instant::now() + Duration::from_secs(8);
                    while sessions(&junos) < 1 && std::time::Instant::now() < until {
                        tokio::time::sleep(Duration::from_millis(20)).await;
                    }
                    // the router goes away; two more jobs (period, then SIGHUP after the failure)
                    junos.state.lock().unwrap().refuse = true;
                    let until = std::time::Instant::now() + Duration::from_secs(6);
                    while sessions(&junos) < 2 && std::time::Instant::now() < until {
                        tokio::time::sleep(Duration::from_millis(20)).await;
                    }
                    tokio::time::sleep(Duration::from_millis(150)).await;
                    if pid > 0 {
                        unsafe { libc::kill(pid, libc::SIGHUP) };
                    }
                    let until = std::time::Instant::now() + Duration::from_secs(4);
                    while sessions(&junos) < 3 && std::time::Instant::now() < until {
                        tokio::time::sleep(Duration::from_millis(20)).await;
                    }
                    tokio::time::sleep(Duration::from_millis(150)).await;
                    if pid > 0 {
                        unsafe { libc::kill(pid, libc::SIGTERM) };
                    }
                    let _ = timeout(Duration::from_secs(8), child.wait()).await;
                    tokio::time::sleep(Duration::from_millis(30)).await;
                    let n = sessions(&junos);
                    let t = String::from_utf8_lossy(&errbuf.lock().unwrap()).to_string();
                    (n, t)
                });
                ev["outcome"] = json!(format!("sessions seen by the router: {}", text.0));
                let mut needles = forms(&secret_part("key", &key_der, &cert_der), None);
                let pem = std::fs::read_to_string(pki("client.key")).unwrap_or_default();
                for l in pem.lines().filter(|l| !l.starts_with("-----")).take(3) {
                    needles.push(("pem-body".into(), l[..l.len().min(40)].to_string()));
                }
                (text.1, needles, false)
            }
            _ => {
                // the agent binary, maximum verbosity, stderr
                let stage2 = stage.to_string();
                let port = rt.block_on(async move {
                    match stage2.as_str() {
                        "refused" => closed_port().port(),
                        s => tls_server(s).await.port(),
                    }
                });
                // the key file as users really have it: combined with the certificate, folded onto one line, without its
                // last line, with DOS line ends, as DER, with a Latin-1 comment or a byte-order mark in front
                let tmp = |tag: &str, d: Vec<u8>| {
                    let p = std::env::temp_dir().join(format!("verif-{tag}-{}.pem", std::process::id()));
                    std::fs::write(&p, d).unwrap();
                    p
                };
                let key_pem = std::fs::read(pki("client.key")).unwrap();
                let key_txt = String::from_utf8_lossy(&key_pem).to_string();
                let keyfile = match class {
                    "combined-pem" => {
                        let mut d = std::fs::read(pki("client.crt")).unwrap();
                        d.extend(key_pem.clone());
                        tmp("combined", d)
                    }
                    "one-line" => tmp("oneline", format!("{}\n", key_txt.trim_end().replace('\n', " ")).into_bytes()),
                    "no-end-marker" => tmp("noend", key_txt.lines().filter(|l| !l.starts_with("-----END")).collect::<Vec<_>>().join("\n").into_bytes()),
                    "no-begin-marker" => tmp("nobegin", key_txt.lines().filter(|l| !l.starts_with("-----BEGIN")).collect::<Vec<_>>().join("\n").into_bytes()),
                    "crlf" => tmp("crlf", key_txt.replace('\n', "\r\n").into_bytes()),
                    "der" => tmp("der", key_der.clone()),
                    "latin1-comment" => tmp("latin1", [b"# cl\xe9 priv\xe9e\n".to_vec(), key_pem.clone()].concat()),
                    "bom" => tmp("bom", [b"\xef\xbb\xbf".to_vec(), key_pem.clone()].concat()),
                    "truncated" => tmp("trunc", key_pem[..key_pem.len() * 2 / 3].to_vec()),
                    other => key_path(other),
                };
                let temp_key = keyfile.file_name().is_some_and(|n| n.to_string_lossy().starts_with("verif-"));
                let certfile = if class == "combined-pem" { keyfile.clone() } else { pki("client.crt") };
                let out = std::process::Command::new(&agent)
                    .args(["-f", "0", "-vvvv", "--irrd-host", "127.0.0.1", "--irrd-port", "1", "remote", "--netconf-host", "127.0.0.1",
                           "--netconf-port", &port.to_string(), "--ca-cert-path", pki("ca.crt").to_str().unwrap(),
                           "--client-cert-path", certfile.to_str().unwrap(), "--client-key-path", keyfile.to_str().unwrap(),
                           "--tls-server-name", "localhost"])
                    .env("RUST_LOG", "trace")
                    .output();
                if temp_key {
                    let _ = std::fs::remove_file(&keyfile);
                }
                let (code, text) = match out {
                    Ok(o) => (o.status.code().unwrap_or(-1), format!("{}{}", String::from_utf8_lossy(&o.stderr), String::from_utf8_lossy(&o.stdout))),
                    Err(_) => (-2, String::new()),
                };
                ev["outcome"] = json!(format!("exit {code}"));
                let der = key_der_of(&key_path(class));
                let mut needles = forms(&secret_part(class, &der, &cert_der), None);
                // the PEM body itself (not its first line: that is the same for every key of a kind)
                let pem = std::fs::read_to_string(key_path(class)).unwrap_or_default();
                for l in pem.lines().filter(|l| !l.starts_with("-----")).skip(1).take(3) {
                    needles.push(("pem-body".into(), l[..l.len().min(40)].to_string()));
                }
                (text, needles, false)
            }
        };
        let leaks = search(&log, &needles, own_only);
        ev["lines"] = json!(log.lines().count());
        ev["own_lines"] = json!(log.lines().filter(|l| l.contains("netconf") || l.contains("bgpfu")).count());
        ev["leak"] = json!(!leaks.is_empty());
        ev["leaks"] = json!(leaks.into_iter().take(3).collect::<Vec<_>>());
        writeln!(stdout.lock(), "{ev}").unwrap();
    }
}
