//! Real-transport driver (C06 framing, C07 disconnects, transport part of C12/C18).
//!
//! For every case a scripted peer (loopback TLS server, fake `cli` child process, loopback
//! SSH server) sends the server hello and the replies cut into exactly the chunks the case
//! prescribes (one TLS record / pipe write / SSH channel-data packet per chunk, with a pause
//! in between), optionally closes cleanly or abruptly at a given position, and a real
//! `netconf::Session` is driven over the real transport.  One ndjson line per case records the
//! inputs and what every operation returned; spec/FramingTrace.tla is the judge.
use std::{
    io::{Read, Write},
    net::SocketAddr,
    sync::Arc,
    time::Duration,
};

use async_trait::async_trait;
use netconf::{
    message::rpc::operation::{Builder, Get},
    transport::JunosLocal,
    Session,
};
use serde_json::{json, Value};
use tokio::{
    io::{AsyncReadExt, AsyncWriteExt},
    net::TcpListener,
    sync::mpsc,
    time::timeout,
};
use vh::util::*;

const PAUSE_MS: u64 = 4;
const BIG: usize = 70_000;
const WATCHDOG: Duration = Duration::from_millis(2500);

// ---------------------------------------------------------------------------------------------
// symbolic streams -> bytes

fn sym_bytes(s: &str) -> Vec<u8> {
    match s {
        "x" => b"x".to_vec(),
        "]" => b"]".to_vec(),
        ">" => b">".to_vec(),
        // one symbol, many bytes: larger than any read buffer, TLS record or SSH packet
        "X" => vec![b'y'; BIG],
        // the bytes of multi-byte characters as symbols of their own, so that a cut can fall inside a character:
        // U1 U2 = e-acute, E1 E2 E3 = euro sign, G1..G4 = an emoji
        "U1" => vec![0xc3],
        "U2" => vec![0xa9],
        "E1" => vec![0xe2],
        "E2" => vec![0x82],
        "E3" => vec![0xac],
        "G1" => vec![0xf0],
        "G2" => vec![0x9f],
        "G3" => vec![0x98],
        "G4" => vec![0x80],
        other => other.as_bytes().to_vec(),
    }
}

/// A stream as a list of (symbol, bytes); cut positions are symbol indices.
struct SymStream {
    parts: Vec<Vec<u8>>,
}

impl SymStream {
    fn new() -> Self {
        SymStream { parts: Vec::new() }
    }
    fn push_msg(&mut self, prefix: &str, body: &[String], suffix: &str) {
        // "p" may be cut in the middle as well: it is two symbols p1 p2 in the case description
        // five symbols: 1st byte, bytes 2-3, bytes 4-5, and the two halves of the rest
        let bytes = prefix.as_bytes();
        let mid = 5 + (bytes.len() - 5) / 2;
        for (a, b) in [(0, 1), (1, 3), (3, 5), (5, mid), (mid, bytes.len())] {
            self.parts.push(bytes[a..b].to_vec());
        }
        // "A<n>": padding that makes the whole message (delimiter included) exactly n bytes long - sizes that are
        // multiples of the usual buffer sizes; the padding starts with "z<n>z" so that it can be recognised again
        let fixed: usize = prefix.len() + suffix.len() + EOM.len()
            + body.iter().filter(|s| !(s.starts_with('A') && s.len() > 1)).map(|s| sym_bytes(s).len()).sum::<usize>();
        for s in body {
            if let Some(n) = s.strip_prefix('A').and_then(|d| d.parse::<usize>().ok()) {
                let mut pad = format!("z{n}z").into_bytes();
                let want = n.saturating_sub(fixed);
                while pad.len() < want {
                    pad.push(b'z');
                }
                self.parts.push(pad);
            } else {
                self.parts.push(sym_bytes(s));
            }
        }
        self.parts.push(suffix.as_bytes().to_vec());
        for c in EOM.chars() {
            self.parts.push(c.to_string().into_bytes());
        }
    }
    /// chunks for cut positions (symbol indices after which to cut), truncated after `upto` symbols
    fn chunks(&self, cuts: &[usize], upto: Option<usize>) -> Vec<Vec<u8>> {
        let n = upto.unwrap_or(self.parts.len()).min(self.parts.len());
        let mut out = Vec::new();
        let mut cur = Vec::new();
        for (i, p) in self.parts.iter().enumerate().take(n) {
            cur.extend_from_slice(p);
            if cuts.contains(&(i + 1)) && !cur.is_empty() {
                out.push(std::mem::take(&mut cur));
            }
        }
        if !cur.is_empty() {
            out.push(cur);
        }
        out
    }
}

fn hello_stream() -> SymStream {
    let mut s = SymStream::new();
    let hello = format!(
        "<hello xmlns=\"{BASE_NS}\"><capabilities><capability>urn:ietf:params:netconf:base:1.0</capability><capability>urn:ietf:params:netconf:base:1.1</capability></capabilities><session-id>4</session-id>"
    );
    s.push_msg(&hello, &[], "</hello>");
    s
}

fn reply_stream(ids: &[u64], bodies: &[Vec<String>]) -> SymStream {
    reply_stream_sep(ids, bodies, "")
}

/// `sep`: what the peer writes after every end-of-message marker (Junos: a line feed) - it reaches the client as
/// the first byte(s) of the next message
fn reply_stream_sep(ids: &[u64], bodies: &[Vec<String>], sep: &str) -> SymStream {
    let mut s = SymStream::new();
    for (k, body) in bodies.iter().enumerate() {
        let id = ids.get(k).copied().unwrap_or(0);
        if body.first().is_some_and(|b| b.starts_with("<error-")) {
            // a negative reply: the symbols of the body are the children of its <rpc-error>, so that a cut or the end of
            // the stream can fall between any two of them
            let p = format!("{sep}<rpc-reply message-id=\"{id}\" xmlns=\"{BASE_NS}\"><rpc-error>");
            s.push_msg(&p, body, "</rpc-error></rpc-reply>");
            continue;
        }
        let p = format!("{sep}<rpc-reply message-id=\"{id}\" xmlns=\"{BASE_NS}\"><data><!--");
        s.push_msg(&p, body, "--></data></rpc-reply>");
    }
    s
}

/// the value a request evaluates to, as the symbols of the body the peer wrote for it: the data of a positive reply,
/// the children of the <rpc-error> of a negative one (which the library hands over as an error value)
fn outcome_of(case: &Value, k: usize, r: Result<String, netconf::Error>) -> Value {
    match r {
        Ok(o) => json!({"out": "ok", "body": body_syms(&o)}),
        Err(netconf::Error::RpcError(errs)) => {
            let want = bodies_of(&case["bodies"]).get(k).cloned().unwrap_or_default();
            let text = format!("{errs:?}");
            // delivered if it is the error the peer wrote (type, tag, severity, message)
            if want.first().is_some_and(|b| b.starts_with("<error-")) && text.contains("OperationFailed") && text.contains("the-message") {
                json!({"out": "ok", "body": want})
            } else {
                json!({"out": "err", "err": "rpc-error", "detail": text.chars().take(100).collect::<String>()})
            }
        }
        Err(e) => json!({"out": "err", "err": err_class(&e), "detail": e.to_string().chars().take(100).collect::<String>()}),
    }
}

fn usizes(v: &Value) -> Vec<usize> {
    v.as_array()
        .map(|a| a.iter().filter_map(|x| x.as_u64().map(|n| n as usize)).collect())
        .unwrap_or_default()
}
fn bodies_of(v: &Value) -> Vec<Vec<String>> {
    v.as_array()
        .map(|a| {
            a.iter()
                .map(|b| {
                    b.as_array()
                        .map(|s| s.iter().filter_map(|x| x.as_str().map(String::from)).collect())
                        .unwrap_or_default()
                })
                .collect()
        })
        .unwrap_or_default()
}
fn close_at(v: &Value) -> Option<usize> {
    v.as_i64().and_then(|n| if n < 0 { None } else { Some(n as usize) })
}

// ---------------------------------------------------------------------------------------------
// the scripted peer

#[derive(Clone, Copy, PartialEq)]
enum CloseKind {
    Clean,
    Abort,
    /// the peer only signals end-of-stream (TLS close_notify / closes its stdout / SSH channel
    /// EOF) and stays around
    Eof,
}

#[async_trait]
trait PeerIo: Send {
    async fn send(&mut self, data: &[u8]) -> bool;
    /// next complete client message, None when the client went away
    async fn next_request(&mut self) -> Option<Vec<u8>>;
    async fn close(&mut self, kind: CloseKind);
}

async fn send_chunks(io: &mut dyn PeerIo, chunks: Vec<Vec<u8>>, pause_after_first: u64) -> bool {
    let n = chunks.len();
    for (i, c) in chunks.into_iter().enumerate() {
        if !io.send(&c).await {
            return false;
        }
        if i + 1 < n {
            let p = if i == 0 && pause_after_first > 0 { pause_after_first } else { PAUSE_MS };
            tokio::time::sleep(Duration::from_millis(p)).await;
        }
    }
    true
}

/// "early": how much of the hello an SSH server writes before it answers the subsystem request
fn early_bytes(case: &Value) -> usize {
    let total: usize = hello_stream().parts.iter().map(|p| p.len()).sum();
    match case["early"].as_str().unwrap_or("") {
        "all" => total,
        "one-byte" => 1,
        "half" => total / 2,
        "all-but-one" => total - 1,
        _ => 0,
    }
}

/// Run the peer side of one case.
async fn run_peer(io: &mut dyn PeerIo, case: &Value) {
    let kind = |s: &str| match s {
        "abort" => CloseKind::Abort,
        "eof" => CloseKind::Eof,
        _ => CloseKind::Clean,
    };
    let hello = hello_stream();
    let hclose = case["hello_close"].as_str().unwrap_or("none");
    let hupto = if hclose == "none" { None } else { close_at(&case["hello_close_at"]) };
    let mut chunks = hello.chunks(&usizes(&case["hello_cuts"]), hupto);
    // (SSH) the first bytes of the hello have gone out already, ahead of the answer to the subsystem request
    let mut skip = early_bytes(case);
    while skip > 0 && !chunks.is_empty() {
        let n = skip.min(chunks[0].len());
        chunks[0].drain(..n);
        skip -= n;
        if chunks[0].is_empty() {
            chunks.remove(0);
        }
    }
    // "hello_pause_ms": a slow peer - the pieces of its hello are that far apart
    if !send_chunks(io, chunks, case["hello_pause_ms"].as_u64().unwrap_or(0)).await {
        return;
    }
    if hclose != "none" {
        tokio::time::sleep(Duration::from_millis(PAUSE_MS)).await;
        io.close(kind(hclose)).await;
        return;
    }
    // client hello
    if io.next_request().await.is_none() {
        return;
    }
    let bodies = bodies_of(&case["bodies"]);
    let mut ids = Vec::new();
    for _ in 0..bodies.len() {
        match io.next_request().await {
            Some(r) => ids.push(message_id_of(&r).unwrap_or(0)),
            None => return,
        }
    }
    let close = case["close"].as_str().unwrap_or("none");
    let upto = if close == "none" { None } else { close_at(&case["close_at"]) };
    let sep = if case["sep"].as_str() == Some("nl") { "\n" } else { "" };
    let stream = reply_stream_sep(&ids, &bodies, sep);
    let chunks = stream.chunks(&usizes(&case["cuts"]), upto);
    let long_pause = case["pause_after_first_ms"].as_u64().unwrap_or(0);
    if !send_chunks(io, chunks, long_pause).await {
        return;
    }
    if close != "none" {
        tokio::time::sleep(Duration::from_millis(PAUSE_MS)).await;
        io.close(kind(close)).await;
        return;
    }
    // one more round trip: the session must still be usable
    if let Some(r) = io.next_request().await {
        let id = message_id_of(&r).unwrap_or(0);
        let s = reply_stream_sep(&[id], &[vec!["x".into(), "x".into()]], sep);
        let _ = send_chunks(io, s.chunks(&[], None), 0).await;
    }
    // keep the connection open until the client is done
    let _ = io.next_request().await;
}

fn take_message(buf: &mut Vec<u8>) -> Option<Vec<u8>> {
    let pos = buf.windows(EOM.len()).position(|w| w == EOM.as_bytes())?;
    Some(buf.drain(..pos + EOM.len()).collect())
}

// ---- TLS ----
struct TlsPeer {
    stream: Option<tokio_rustls::server::TlsStream<tokio::net::TcpStream>>,
    inbuf: Vec<u8>,
}

#[async_trait]
impl PeerIo for TlsPeer {
    async fn send(&mut self, data: &[u8]) -> bool {
        let Some(s) = self.stream.as_mut() else { return false };
        s.write_all(data).await.is_ok() && s.flush().await.is_ok()
    }
    async fn next_request(&mut self) -> Option<Vec<u8>> {
        loop {
            if let Some(m) = take_message(&mut self.inbuf) {
                return Some(m);
            }
            let s = self.stream.as_mut()?;
            let mut b = [0u8; 4096];
            match s.read(&mut b).await {
                Ok(0) | Err(_) => return None,
                Ok(n) => self.inbuf.extend_from_slice(&b[..n]),
            }
        }
    }
    async fn close(&mut self, kind: CloseKind) {
        if let Some(mut s) = self.stream.take() {
            match kind {
                CloseKind::Clean => {
                    let _ = s.shutdown().await;
                }
                CloseKind::Abort => {
                    let _ = s.get_mut().0.set_linger(Some(Duration::ZERO));
                }
                CloseKind::Eof => {
                    let _ = s.shutdown().await;
                    // stay connected (read side open) while the client reacts
                    let mut b = [0u8; 1024];
                    let _ = timeout(Duration::from_secs(8), async {
                        while let Ok(n) = s.read(&mut b).await {
                            if n == 0 {
                                break;
                            }
                        }
                    })
                    .await;
                }
            }
            drop(s);
        }
    }
}

fn pki(name: &str) -> std::path::PathBuf {
    let base = std::env::var("VERIF_PKI").unwrap_or_else(|_| "/verif/fixtures/pki".into());
    std::path::Path::new(&base).join(name)
}

fn tls_acceptor() -> tokio_rustls::TlsAcceptor {
    use tokio_rustls::rustls;
    let certs: Vec<_> = rustls_pemfile::certs(&mut std::io::BufReader::new(
        std::fs::File::open(pki("server.crt")).expect("server.crt"),
    ))
    .collect::<Result<_, _>>()
    .expect("server cert");
    let key = rustls_pemfile::private_key(&mut std::io::BufReader::new(
        std::fs::File::open(pki("server.key")).expect("server.key"),
    ))
    .expect("server key")
    .expect("server key present");
    let config = rustls::ServerConfig::builder()
        .with_no_client_auth()
        .with_single_cert(certs, key)
        .expect("server config");
    tokio_rustls::TlsAcceptor::from(Arc::new(config))
}

fn client_pki() -> (
    rustls_pki_types::CertificateDer<'static>,
    rustls_pki_types::CertificateDer<'static>,
    rustls_pki_types::PrivateKeyDer<'static>,
) {
    let one = |n: &str| {
        rustls_pemfile::certs(&mut std::io::BufReader::new(std::fs::File::open(pki(n)).unwrap()))
            .next()
            .unwrap()
            .unwrap()
    };
    let key = rustls_pemfile::private_key(&mut std::io::BufReader::new(
        std::fs::File::open(pki("client.key")).unwrap(),
    ))
    .unwrap()
    .unwrap();
    (one("ca.crt"), one("client.crt"), key)
}

async fn serve_tls(case: Value, acceptor: tokio_rustls::TlsAcceptor) -> SocketAddr {
    let listener = TcpListener::bind(("127.0.0.1", 0)).await.unwrap();
    let addr = listener.local_addr().unwrap();
    drop(tokio::spawn(async move {
        // a server that is in one of the set-up states treats every new connection the same way (a client that knocks
        // again gets the same answer)
        loop {
            let Ok((tcp, _)) = listener.accept().await else { return };
            let _ = tcp.set_nodelay(true);
            let stage = case["hello_close"].as_str().unwrap_or("none").to_string();
            if stage == "pre-tls" || stage == "tls-accept" {
                drop(tcp);
                continue;
            }
            if stage == "tls-greeting" || stage == "tls-greeting-reset" {
                // the peer goes away in the middle of the TLS handshake: ClientHello read, nothing answered
                let mut tcp = tcp;
                let mut b = [0u8; 4096];
                let _ = tcp.read(&mut b).await;
                if stage == "tls-greeting-reset" {
                    let _ = tcp.set_linger(Some(Duration::ZERO));
                }
                drop(tcp);
                continue;
            }
            if stage == "tls-garbage" {
                // not a TLS server at all: answers the ClientHello with a text banner and hangs up
                let mut tcp = tcp;
                let mut b = [0u8; 4096];
                let _ = tcp.read(&mut b).await;
                let _ = tcp.write_all(b"220 this is not a TLS server\r\n").await;
                let _ = tcp.flush().await;
                tokio::time::sleep(Duration::from_millis(PAUSE_MS)).await;
                drop(tcp);
                continue;
            }
            if stage == "tls-silent-then-close" {
                // accepts the connection, says nothing for a while, then hangs up
                tokio::time::sleep(Duration::from_millis(300)).await;
                drop(tcp);
                continue;
            }
            let Ok(stream) = acceptor.accept(tcp).await else { return };
            let mut peer = TlsPeer { stream: Some(stream), inbuf: Vec::new() };
            run_peer(&mut peer, &case).await;
            return;
        }
    }));
    addr
}

// ---- SSH ----
struct SshPeer {
    handle: russh::server::Handle,
    channel: russh::ChannelId,
    rx: mpsc::UnboundedReceiver<Vec<u8>>,
    inbuf: Vec<u8>,
    kill: Option<tokio::sync::oneshot::Sender<()>>,
}

#[async_trait]
impl PeerIo for SshPeer {
    async fn send(&mut self, data: &[u8]) -> bool {
        self.handle
            .data(self.channel, russh::CryptoVec::from_slice(data))
            .await
            .is_ok()
    }
    async fn next_request(&mut self) -> Option<Vec<u8>> {
        loop {
            if let Some(m) = take_message(&mut self.inbuf) {
                return Some(m);
            }
            let d = self.rx.recv().await?;
            self.inbuf.extend_from_slice(&d);
        }
    }
    async fn close(&mut self, kind: CloseKind) {
        match kind {
            CloseKind::Clean => {
                let _ = self.handle.eof(self.channel).await;
                let _ = self.handle.close(self.channel).await;
            }
            CloseKind::Eof => {
                let _ = self.handle.eof(self.channel).await;
                tokio::time::sleep(Duration::from_secs(8)).await;
            }
            CloseKind::Abort => {
                if let Some(k) = self.kill.take() {
                    let _ = k.send(());
                }
            }
        }
    }
}

struct SshConn {
    case: Value,
    tx: Option<mpsc::UnboundedSender<Vec<u8>>>,
    kill: Option<tokio::sync::oneshot::Sender<()>>,
}

#[async_trait]
impl russh::server::Handler for SshConn {
    type Error = anyhow::Error;

    async fn auth_password(mut self, _: &str, _: &str) -> Result<(Self, russh::server::Auth), Self::Error> {
        if self.case["hello_close"] == "ssh-auth" {
            // the connection is cut while the client waits for the answer to its authentication request
            if let Some(k) = self.kill.take() {
                let _ = k.send(());
            }
            tokio::time::sleep(Duration::from_millis(200)).await;
        }
        Ok((self, russh::server::Auth::Accept))
    }

    async fn channel_open_session(
        mut self,
        _: russh::Channel<russh::server::Msg>,
        session: russh::server::Session,
    ) -> Result<(Self, bool, russh::server::Session), Self::Error> {
        if self.case["hello_close"] == "ssh-channel" {
            if let Some(k) = self.kill.take() {
                let _ = k.send(());
            }
            tokio::time::sleep(Duration::from_millis(200)).await;
        }
        if self.case["hello_close"] == "ssh-channel-refuse" {
            return Ok((self, false, session));
        }
        Ok((self, true, session))
    }

    async fn subsystem_request(
        mut self,
        channel: russh::ChannelId,
        _name: &str,
        mut session: russh::server::Session,
    ) -> Result<(Self, russh::server::Session), Self::Error> {
        match self.case["hello_close"].as_str().unwrap_or("none") {
            // the peer vanishes between the subsystem request and its answer
            "ssh-subsystem-drop" => {
                if let Some(k) = self.kill.take() {
                    let _ = k.send(());
                }
                tokio::time::sleep(Duration::from_millis(200)).await;
                return Ok((self, session));
            }
            // the channel is closed without any answer to the request
            "ssh-subsystem-close" => {
                session.close(channel);
                return Ok((self, session));
            }
            // the server has no netconf subsystem: failure, then the channel is closed
            "ssh-subsystem-refuse" => {
                session.channel_failure(channel);
                session.eof(channel);
                session.close(channel);
                return Ok((self, session));
            }
            // success, then the channel is closed at once: no hello will ever come
            "ssh-subsystem-ok-close" => {
                session.channel_success(channel);
                session.eof(channel);
                session.close(channel);
                return Ok((self, session));
            }
            _ => {}
        }
        let early = early_bytes(&self.case);
        if early > 0 {
            // the subsystem is started (and writes) before the request is answered
            let hello: Vec<u8> = hello_stream().parts.concat();
            session.data(channel, russh::CryptoVec::from_slice(&hello[..early]));
        }
        session.channel_success(channel);
        let (tx, rx) = mpsc::unbounded_channel();
        self.tx = Some(tx);
        let mut peer = SshPeer {
            handle: session.handle(),
            channel,
            rx,
            inbuf: Vec::new(),
            kill: self.kill.take(),
        };
        let case = self.case.clone();
        drop(tokio::spawn(async move {
            run_peer(&mut peer, &case).await;
        }));
        Ok((self, session))
    }

    async fn data(
        self,
        _channel: russh::ChannelId,
        data: &[u8],
        session: russh::server::Session,
    ) -> Result<(Self, russh::server::Session), Self::Error> {
        if let Some(tx) = &self.tx {
            let _ = tx.send(data.to_vec());
        }
        Ok((self, session))
    }
}

async fn serve_ssh(case: Value, key: russh_keys::key::KeyPair) -> SocketAddr {
    let config = Arc::new(russh::server::Config {
        auth_rejection_time: Duration::from_millis(10),
        auth_rejection_time_initial: Some(Duration::ZERO),
        keys: vec![key],
        ..Default::default()
    });
    let listener = TcpListener::bind(("127.0.0.1", 0)).await.unwrap();
    let addr = listener.local_addr().unwrap();
    drop(tokio::spawn(async move {
        // (a server in one of the states before the SSH handshake treats every new connection the same way)
        let socket = loop {
            let Ok((mut socket, _)) = listener.accept().await else { return };
            let _ = socket.set_nodelay(true);
            match case["hello_close"].as_str().unwrap_or("none") {
                "ssh-accept" => {
                    drop(socket);
                    continue;
                }
                "ssh-banner" => {
                    // identification string, then the peer is gone
                    let _ = socket.write_all(b"SSH-2.0-fake_1.0\r\n").await;
                    let _ = socket.flush().await;
                    tokio::time::sleep(Duration::from_millis(PAUSE_MS)).await;
                    drop(socket);
                    continue;
                }
                "ssh-garbage" => {
                    let _ = socket.write_all(b"HTTP/1.1 400 Bad Request\r\n\r\n").await;
                    let _ = socket.flush().await;
                    tokio::time::sleep(Duration::from_millis(PAUSE_MS)).await;
                    drop(socket);
                    continue;
                }
                _ => break socket,
            }
        };
        let (ktx, krx) = tokio::sync::oneshot::channel();
        let conn = SshConn { case, tx: None, kill: Some(ktx) };
        // a second descriptor for the socket, so that the connection can be cut underneath russh
        let dupfd = unsafe { libc::dup(std::os::fd::AsRawFd::as_raw_fd(&socket)) };
        if let Ok(running) = russh::server::run_stream(config, socket, conn).await {
            tokio::select! {
                _ = running => {}
                _ = krx => {
                    // abrupt: the TCP connection goes away without any SSH-level goodbye
                    unsafe { libc::shutdown(dupfd, libc::SHUT_RDWR); }
                }
            }
        }
        unsafe { libc::close(dupfd); }
    }));
    addr
}

// ---- local child ("cli") ----
fn fakecli(script_path: &str) {
    // blocking implementation of the same script over stdin/stdout
    let case: Value = serde_json::from_str(&std::fs::read_to_string(script_path).expect("script")).expect("json");
    match case["hello_close"].as_str().unwrap_or("none") {
        // the cli exits at once without a word (not a Junos system, no permission, ...)
        "local-exit" => std::process::exit(1),
        "local-stderr" => {
            eprintln!("error: netconf: could not connect to management daemon");
            std::process::exit(1)
        }
        // plain text instead of NETCONF on standard output, then exit
        "local-garbage" => {
            println!("error: syntax error, expecting <command>: xml-mode");
            std::process::exit(1)
        }
        _ => {}
    }
    struct StdPeer {
        inbuf: Vec<u8>,
    }
    #[async_trait]
    impl PeerIo for StdPeer {
        async fn send(&mut self, data: &[u8]) -> bool {
            let mut o = std::io::stdout().lock();
            o.write_all(data).is_ok() && o.flush().is_ok()
        }
        async fn next_request(&mut self) -> Option<Vec<u8>> {
            loop {
                if let Some(m) = take_message(&mut self.inbuf) {
                    return Some(m);
                }
                let mut b = [0u8; 4096];
                match std::io::stdin().lock().read(&mut b) {
                    Ok(0) | Err(_) => return None,
                    Ok(n) => self.inbuf.extend_from_slice(&b[..n]),
                }
            }
        }
        async fn close(&mut self, kind: CloseKind) {
            match kind {
                CloseKind::Clean => std::process::exit(0),
                CloseKind::Eof => {
                    unsafe {
                        libc::close(1);
                    }
                    std::thread::sleep(Duration::from_secs(8));
                    std::process::exit(0)
                }
                CloseKind::Abort => unsafe {
                    libc::kill(libc::getpid(), libc::SIGKILL);
                },
            }
        }
    }
    let rt = tokio::runtime::Builder::new_current_thread().enable_all().build().unwrap();
    rt.block_on(async {
        let mut p = StdPeer { inbuf: Vec::new() };
        run_peer(&mut p, &case).await;
    });
}

// ---------------------------------------------------------------------------------------------
// the client side

fn body_syms(s: &str) -> Vec<String> {
    // the reply's data is "<!--BODY-->"
    let inner = s.trim();
    let inner = inner.strip_prefix("<!--").and_then(|r| r.strip_suffix("-->"));
    match inner {
        Some(b) => {
            let b = b.replace(&"y".repeat(BIG), "X");
            // "z<n>z" followed by z's is the aligned-size symbol A<n>
            let mut out: Vec<String> = Vec::new();
            let cs: Vec<char> = b.chars().collect();
            let mut i = 0;
            while i < cs.len() {
                if cs[i] == 'z' {
                    let mut j = i + 1;
                    let mut digits = String::new();
                    while j < cs.len() && cs[j].is_ascii_digit() {
                        digits.push(cs[j]);
                        j += 1;
                    }
                    if !digits.is_empty() && j < cs.len() && cs[j] == 'z' {
                        while j < cs.len() && cs[j] == 'z' {
                            j += 1;
                        }
                        out.push(format!("A{digits}"));
                        i = j;
                        continue;
                    }
                }
                match cs[i] {
                    '\u{e9}' => out.extend(["U1", "U2"].map(String::from)),
                    '\u{20ac}' => out.extend(["E1", "E2", "E3"].map(String::from)),
                    '\u{1f600}' => out.extend(["G1", "G2", "G3", "G4"].map(String::from)),
                    c => out.push(c.to_string()),
                }
                i += 1;
            }
            out
        }
        None => vec![format!("?{s}")],
    }
}

async fn drive_session<T: netconf::transport::Transport>(
    est: impl std::future::Future<Output = Result<Session<T>, netconf::Error>>,
    case: &Value,
) -> Value {
    let mut ev = json!({});
    let mut session = match timeout(WATCHDOG + Duration::from_millis(case["hello_pause_ms"].as_u64().unwrap_or(0)), est).await {
        Err(_) => {
            ev["established"] = json!("timeout");
            return ev;
        }
        Ok(Err(e)) => {
            ev["established"] = json!("err");
            ev["est_err"] = json!(err_class(&e));
            return ev;
        }
        Ok(Ok(s)) => s,
    };
    ev["established"] = json!("yes");
    ev["version"] = json!(format!("{}", session.context().protocol_version()));
    let k = bodies_of(&case["bodies"]).len();
    let mut futs = Vec::new();
    let mut results: Vec<Value> = Vec::new();
    for _ in 0..k {
        match timeout(WATCHDOG, session.rpc::<Get, _>(|b| b.filter(None).finish())).await {
            Err(_) => {
                results.push(json!({"out": "timeout", "at": "send"}));
                ev["results"] = json!(results);
                return ev;
            }
            Ok(Err(e)) => futs.push(Err(err_class(&e).to_string())),
            Ok(Ok(f)) => futs.push(Ok(f)),
        }
    }
    let dropmid = case["drop_first_after_ms"].as_u64();
    let mut hung = false;
    for (i, f) in futs.into_iter().enumerate() {
        match f {
            Err(c) => results.push(json!({"out": "err", "at": "send", "err": c})),
            Ok(fut) => {
                if i == 0 {
                    if let Some(ms) = dropmid {
                        // C18 on a real transport: abandon the reader in the middle of a message
                        match timeout(Duration::from_millis(ms), fut).await {
                            Err(_) => results.push(json!({"out": "dropped"})),
                            Ok(Ok(o)) => results.push(json!({"out": "ok", "body": body_syms(&o.to_string())})),
                            Ok(Err(e)) => results.push(json!({"out": "err", "err": err_class(&e)})),
                        }
                        continue;
                    }
                }
                if hung {
                    results.push(json!({"out": "skipped"}));
                    continue;
                }
                match timeout(WATCHDOG, fut).await {
                    Err(_) => {
                        hung = true;
                        results.push(json!({"out": "timeout"}));
                    }
                    Ok(r) => results.push(outcome_of(case, i, r.map(|o| o.to_string()))),
                }
            }
        }
    }
    ev["results"] = json!(results);
    if hung {
        ev["after"] = json!({"out": "skipped"});
        return ev;
    }
    // one more operation: after a close it must fail, otherwise it must work
    let after = match timeout(WATCHDOG, session.rpc::<Get, _>(|b| b.filter(None).finish())).await {
        Err(_) => json!({"out": "timeout", "at": "send"}),
        Ok(Err(e)) => json!({"out": "err", "at": "send", "err": err_class(&e)}),
        Ok(Ok(f)) => match timeout(WATCHDOG, f).await {
            Err(_) => json!({"out": "timeout"}),
            Ok(Ok(o)) => json!({"out": "ok", "body": body_syms(&o.to_string())}),
            Ok(Err(e)) => json!({"out": "err", "err": err_class(&e)}),
        },
    };
    ev["after"] = after;
    // ... and closing the session is an operation too: once the peer has gone it must end (with an error or not), not hang
    if case["close"].as_str().unwrap_or("none") != "none" {
        let closing = async {
            match session.close().await {
                Err(e) => json!({"out": "err", "at": "send", "err": err_class(&e)}),
                Ok(f) => match f.await {
                    Ok(()) => json!({"out": "ok"}),
                    Err(e) => json!({"out": "err", "err": err_class(&e)}),
                },
            }
        };
        ev["closeop"] = match timeout(WATCHDOG, closing).await {
            Err(_) => json!({"out": "timeout"}),
            Ok(v) => v,
        };
    }
    ev
}

static LOCAL_ENTRY: std::sync::atomic::AtomicBool = std::sync::atomic::AtomicBool::new(false);
fn ev_local_entry(shim: bool) {
    LOCAL_ENTRY.store(shim, std::sync::atomic::Ordering::Relaxed);
}

#[allow(dead_code)]
fn cpu_ms() -> u64 {
    unsafe {
        let mut ru: libc::rusage = std::mem::zeroed();
        libc::getrusage(libc::RUSAGE_SELF, &mut ru);
        (ru.ru_utime.tv_sec as u64) * 1000 + (ru.ru_utime.tv_usec as u64) / 1000
            + (ru.ru_stime.tv_sec as u64) * 1000 + (ru.ru_stime.tv_usec as u64) / 1000
    }
}

async fn run_case(case: Value, acceptor: tokio_rustls::TlsAcceptor, wd: String) -> Value {
    let transport = case["transport"].as_str().unwrap_or("tls").to_string();
    let mut ev = match transport.as_str() {
        "tls" => {
            let addr = serve_tls(case.clone(), acceptor).await;
            let (ca, cert, key) = client_pki();
            drive_session(Session::tls(addr, "localhost", ca, cert, key), &case).await
        }
        "ssh" => {
            let key = russh_keys::key::KeyPair::generate_ed25519().expect("keygen");
            let addr = serve_ssh(case.clone(), key).await;
            drive_session(
                Session::ssh(addr, "user".to_string(), "secret-password".parse().unwrap()),
                &case,
            )
            .await
        }
        _ => {
            let script = format!("{wd}/cli-{}.json", case["case"].as_str().unwrap_or("x"));
            std::fs::write(&script, case.to_string()).unwrap();
            let exe = std::env::current_exe().unwrap();
            // with the /usr/sbin/cli shim of bin/setup in place the library's own entry point is used
            // (Session::junos_local -> JunosLocal::connect, the code a Junos system runs); otherwise the hook
            let shim = std::fs::read_to_string("/usr/sbin/cli").map_or(false, |t| t.contains("bgpfu-rs verification shim"));
            let r = if shim {
                // one case per process: the environment is this case's alone
                std::env::set_var("BGPFU_VERIF_CLI", format!("{} fakecli {}", exe.display(), script));
                drive_session(Session::junos_local(), &case).await
            } else {
                let est = async {
                    let t = JunosLocal::verif_connect(exe, &["fakecli".to_string(), script.clone()]).await?;
                    Session::verif_with_transport(t).await
                };
                drive_session(est, &case).await
            };
            ev_local_entry(shim);
            let _ = std::fs::remove_file(&script);
            r
        }
    };
    ev["ev"] = json!("frame");
    if transport == "local" {
        ev["entry"] = json!(if LOCAL_ENTRY.load(std::sync::atomic::Ordering::Relaxed) { "Session::junos_local" } else { "verif_connect" });
    }
    for k in ["case", "transport", "hello_cuts", "hello_close", "hello_close_at", "bodies", "cuts", "close", "close_at",
              "pause_after_first_ms", "drop_first_after_ms", "sep"] {
        if !case[k].is_null() {
            ev[k] = case[k].clone();
        }
    }
    ev
}

fn main() {
    let args: Vec<String> = std::env::args().collect();
    match args.get(1).map(String::as_str) {
        Some("fakecli") => fakecli(&args[2]),
        Some("one") => {
            // framing one <case-json> <workdir>: a single case in its own process, so that a
            // receiver that spins without ever yielding can be killed from outside
            let case: Value = serde_json::from_str(&args[2]).expect("case json");
            let wd = args[3].clone();
            let rt = tokio::runtime::Builder::new_multi_thread()
                .worker_threads(3)
                .enable_all()
                .build()
                .unwrap();
            let acceptor = tls_acceptor();
            let v = rt.block_on(run_case(case, acceptor, wd));
            println!("{v}");
            // do not wait for peer tasks
            std::process::exit(0);
        }
        Some("run") => {
            // framing run <cases.ndjson> <workdir> [concurrency]
            let cases: Vec<Value> = std::fs::read_to_string(&args[2])
                .expect("cases")
                .lines()
                .filter(|l| !l.trim().is_empty())
                .map(|l| serde_json::from_str(l).expect("case json"))
                .collect();
            let wd = args[3].clone();
            let conc: usize = args.get(4).and_then(|s| s.parse().ok()).unwrap_or(8);
            let exe = std::env::current_exe().unwrap();
            let rt = tokio::runtime::Builder::new_multi_thread()
                .worker_threads(4)
                .enable_all()
                .build()
                .unwrap();
            rt.block_on(async move {
                let sem = Arc::new(tokio::sync::Semaphore::new(conc));
                let mut handles = std::collections::VecDeque::new();
                let mut bad = 0usize;
                let emit = |v: Value, bad: &mut usize| {
                    let s = v.to_string();
                    if s.contains("\"timeout\"") || s.contains("\"killed\"") {
                        *bad += 1;
                    }
                    println!("{s}");
                };
                for case in cases {
                    let permit = sem.clone().acquire_owned().await.unwrap();
                    let (exe, wd) = (exe.clone(), wd.clone());
                    handles.push_back(tokio::spawn(async move {
                        let mut child = tokio::process::Command::new(exe)
                            .arg("one")
                            .arg(case.to_string())
                            .arg(wd)
                            .stdout(std::process::Stdio::piped())
                            .stderr(std::process::Stdio::null())
                            .kill_on_drop(true)
                            .spawn()
                            .expect("spawn");
                        let pid = child.id().unwrap_or(0);
                        let mut out = child.stdout.take().unwrap();
                        let started = std::time::Instant::now();
                        let mut buf = Vec::new();
                        let r = timeout(Duration::from_millis(12_000 + case["hello_pause_ms"].as_u64().unwrap_or(0)), async {
                            let _ = out.read_to_end(&mut buf).await;
                            child.wait().await
                        })
                        .await;
                        let v = match r {
                            Ok(_) => serde_json::from_slice::<Value>(&buf).ok(),
                            Err(_) => None,
                        };
                        let v = v.unwrap_or_else(|| {
                            // killed by the watchdog (or crashed): CPU time tells a spin from a sleep
                            let cpu = std::fs::read_to_string(format!("/proc/{pid}/stat"))
                                .ok()
                                .and_then(|s| {
                                    let f: Vec<&str> = s.rsplit(')').next()?.split_whitespace().collect();
                                    Some((f.get(11)?.parse::<u64>().ok()? + f.get(12)?.parse::<u64>().ok()?) * 10)
                                })
                                .unwrap_or(0);
                            let mut e = json!({"ev": "frame", "established": "killed", "cpu_ms": cpu,
                                               "wall_ms": started.elapsed().as_millis() as u64});
                            for k in ["case", "transport", "hello_cuts", "hello_close", "hello_close_at", "bodies", "cuts",
                                      "close", "close_at", "pause_after_first_ms", "drop_first_after_ms"] {
                                if !case[k].is_null() {
                                    e[k] = case[k].clone();
                                }
                            }
                            e
                        });
                        drop(permit);
                        v
                    }));
                    while handles.len() > conc * 2 {
                        let h = handles.pop_front().unwrap();
                        let v = h.await.unwrap_or_else(|_| json!({"ev": "frame", "case": "?", "established": "panic"}));
                        emit(v, &mut bad);
                    }
                    if bad > 30 {
                        break; // every hang costs seconds; the verdict is already clear
                    }
                }
                while let Some(h) = handles.pop_front() {
                    let v = h.await.unwrap_or_else(|_| json!({"ev": "frame", "case": "?", "established": "panic"}));
                    emit(v, &mut bad);
                }
            });
        }
        _ => {
            eprintln!("usage: framing run <cases.ndjson> <workdir> [concurrency] | framing fakecli <script.json>");
            std::process::exit(2);
        }
    }
}
