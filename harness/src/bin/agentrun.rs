//! Runs the UNMODIFIED agent binary (one-shot mode, remote TLS target) and the bgpfu command
//! against the fake Junos and the fake IRRd, scenario by scenario, and writes what both fakes
//! saw plus the exit status as ndjson.
use std::{io::Write, process::Stdio, sync::Arc, time::Duration};

use serde_json::{json, Value};
use vh::fakes::*;

fn pki(name: &str) -> String {
    let base = std::env::var("VERIF_PKI").unwrap_or_else(|_| "/verif/fixtures/pki".into());
    format!("{base}/{name}")
}

fn tls_acceptor() -> tokio_rustls::TlsAcceptor {
    use tokio_rustls::rustls;
    let certs: Vec<_> = rustls_pemfile::certs(&mut std::io::BufReader::new(std::fs::File::open(pki("server.crt")).expect("server.crt")))
        .collect::<Result<_, _>>()
        .expect("server cert");
    let key = rustls_pemfile::private_key(&mut std::io::BufReader::new(std::fs::File::open(pki("server.key")).expect("server.key")))
        .expect("server key")
        .expect("key");
    let config = rustls::ServerConfig::builder()
        .with_no_client_auth()
        .with_single_cert(certs, key)
        .expect("server config");
    tokio_rustls::TlsAcceptor::from(Arc::new(config))
}

fn faults_of(v: &Value) -> Vec<Fault> {
    v.as_array()
        .map(|a| {
            a.iter()
                .map(|f| Fault {
                    target: f["target"].as_str().unwrap_or("").to_string(),
                    index: f["index"].as_u64().unwrap_or(0) as usize,
                    kind: f["kind"].as_str().unwrap_or("").to_string(),
                })
                .collect()
        })
        .unwrap_or_default()
}

async fn run_scenario(sc: Value, agent: String, acceptor: tokio_rustls::TlsAcceptor) -> Vec<Value> {
    let case = sc["case"].as_str().unwrap_or("?").to_string();
    let inst = sc["instance"].as_str().unwrap_or("bgpfu").to_string();
    let mut eph = eph_from_json(&sc["eph0"]);
    let mut out: Vec<Value> = Vec::new();
    let mut seq = 0usize;
    let mut emit = |out: &mut Vec<Value>, mut v: Value| {
        seq += 1;
        v["case"] = json!(case);
        v["seq"] = json!(seq);
        out.push(v);
    };
    emit(&mut out, json!({"ev": "reset", "instance": inst, "meta": sc["meta"].clone()}));
    let mut prev_start = eph.clone();
    for (k, run) in sc["runs"].as_array().into_iter().flatten().enumerate() {
        // a twin run starts from the state the previous run started from and differs from it only
        // in how the router serialises its replies
        let twin = run["twin"].as_bool().unwrap_or(false);
        if twin {
            eph = prev_start.clone();
        }
        // somebody edited the ephemeral instance by hand between two runs
        if let Some(how) = run["tamper"].as_str() {
            for (_, p) in eph.iter_mut() {
                match how {
                    "drop-reject" => p.reject = false,
                    "drop-reject-and-add-filter" => {
                        p.reject = false;
                        if let Some(t) = p.terms.first_mut() {
                            t.filters.push(("10.192.0.0/10".to_string(), "/10-/10".to_string()));
                        }
                    }
                    "add-accept-all-term" => p.terms.push(Term { name: "all".into(), family: None, filters: vec![], accept: true }),
                    _ => {}
                }
            }
            emit(&mut out, json!({"ev": "tamper", "how": how, "eph": eph_to_json(&eph), "den": den_map(eph_filters(&eph))}));
        }
        prev_start = eph.clone();
        let flags: Vec<String> = run["style"].as_array().map(|a| a.iter().filter_map(|x| x.as_str().map(String::from)).collect()).unwrap_or_default();
        let style = if run["style"].is_array() { Some(vh::xmlgen::Style::from_flags(&flags)) } else { None };
        let irr_mode = run["irr_mode"].as_str().unwrap_or("ok");
        let irrd = start_irrd(IrrDb::from_json(&run["irr"]), irr_mode);
        let junos = start_junos(run["running"].clone(), eph.clone(), faults_of(&run["faults"]), acceptor.clone(), case.clone(), style).await;
        // a router that implements NETCONF 1.1 as well (chunked framing with a client that advertises it too)
        junos.state.lock().unwrap().caps11 = sc["caps11"].as_bool().unwrap_or(false);
        emit(&mut out, json!({"ev": "run_start", "run": k + 1, "running": run["running"], "eph": eph_to_json(&eph),
                              "den": den_map(eph_filters(&eph)), "repeat": run["repeat"].as_bool().unwrap_or(false),
                              "expect": run["expect"], "irr_mode": irr_mode, "faults": run["faults"],
                              "twin": twin, "style": flags.join("+")}));
        let mut cmd = tokio::process::Command::new(&agent);
        vh::util::die_with_parent(&mut cmd);
        let local = run["target"].as_str() == Some("local") || sc["target"].as_str() == Some("local");
        if local {
            // the agent's local target: it spawns /usr/sbin/cli (a shim installed by bin/setup that execs
            // $BGPFU_VERIF_CLI), which here is a byte bridge to the same fake router without TLS
            let exe = std::env::current_exe().unwrap();
            cmd.env("BGPFU_VERIF_CLI", format!("{} clibridge {}", exe.display(), junos.plain_addr.port()));
            cmd.args(["-f", "0", "--irrd-host", "127.0.0.1", "--irrd-port", &irrd.addr.port().to_string(), "--ephemeral-db", &inst, "local"]);
        } else {
            cmd.args(["-f", "0", "--irrd-host", "127.0.0.1", "--irrd-port", &irrd.addr.port().to_string(), "--ephemeral-db", &inst,
                      "remote", "--netconf-host", "127.0.0.1", "--netconf-port", &junos.addr.port().to_string(),
                      "--ca-cert-path", &pki("ca.crt"), "--client-cert-path", &pki("client.crt"), "--client-key-path", &pki("client.key"),
                      "--tls-server-name", "localhost"]);
        }
        cmd.stdin(Stdio::null())
            .stdout(Stdio::null())
            .stderr(Stdio::piped())
            .kill_on_drop(true);
        let started = std::time::Instant::now();
        let child = cmd.spawn().expect("spawn agent");
        let res = tokio::time::timeout(Duration::from_secs(15), child.wait_with_output()).await;
        let (code, timed_out, stderr) = match res {
            Ok(Ok(o)) => (o.status.code().unwrap_or(-1), false, String::from_utf8_lossy(&o.stderr).to_string()),
            Ok(Err(_)) => (-2, false, String::new()),
            Err(_) => (-3, true, String::new()),
        };
        // give the server tasks a moment to log the end of the session
        tokio::time::sleep(Duration::from_millis(5)).await;
        let (log, new_eph) = {
            let g = junos.state.lock().unwrap();
            (g.log.clone(), g.eph.clone())
        };
        for mut e in log {
            e["run"] = json!(k + 1);
            let s = e.as_object_mut().unwrap();
            s.remove("seq");
            emit(&mut out, e);
        }
        let queries: Vec<Value> = irrd.log.lock().unwrap().iter().map(|(c, q)| json!([c, q])).collect();
        emit(&mut out, json!({"ev": "irr_log", "run": k + 1, "queries": queries}));
        if let Ok(dir) = std::env::var("VERIF_KEEP_STDERR") {
            let _ = std::fs::write(format!("{dir}/{case}-run{}.stderr", k + 1), &stderr);
        }
        let panicked = stderr.contains("panicked");
        emit(&mut out, json!({"ev": "exit", "run": k + 1, "code": code, "timed_out": timed_out, "panicked": panicked,
                              "wall_ms": started.elapsed().as_millis() as u64,
                              "panic_at": stderr.lines().find(|l| l.contains("panicked at")).map(|l| l.chars().filter(|c| !c.is_control()).take(200).collect::<String>()).unwrap_or_default(),
                              "stderr_error": stderr.lines().filter(|l| l.contains("Error") || l.contains("ERROR") || l.contains("panicked"))
                                  .take(2).collect::<Vec<_>>().join(" | ").chars().filter(|c| !c.is_control()).take(500).collect::<String>(),
                              "stderr_tail": stderr.lines().rev().take(3).collect::<Vec<_>>().join(" | ").chars().take(400).collect::<String>()}));
        eph = new_eph;
        emit(&mut out, json!({"ev": "run_end", "run": k + 1, "eph": eph_to_json(&eph), "den": den_map(eph_filters(&eph))}));
    }
    out
}

/// Daemon mode: ONE agent process (`-f <period>`) runs the job several times against the same router
/// and IRRd.  Session j of the process is run j of the scenario: before it starts, the router's running
/// configuration, the IRR database and the faults are those of `runs[j]` (the last run's, if the scenario has
/// fewer runs than sessions); before chosen runs the router "reboots" (its ephemeral instance is empty again).
/// After a run that failed the daemon would wait a minute: SIGHUP makes it run again at once.
/// The outcome of a run is internal to the process and is inferred from what the router saw.
async fn run_daemon_scenario(sc: Value, agent: String, acceptor: tokio_rustls::TlsAcceptor) -> Vec<Value> {
    let case = sc["case"].as_str().unwrap_or("?").to_string();
    let inst = sc["instance"].as_str().unwrap_or("bgpfu").to_string();
    let d = &sc["daemon"];
    let period = d["period"].as_u64().unwrap_or(1);
    let nsess = d["sessions"].as_u64().unwrap_or(3) as usize;
    let reset_before: Vec<usize> = d["reset_before"].as_array().map(|a| a.iter().filter_map(|x| x.as_u64().map(|n| n as usize)).collect()).unwrap_or_default();
    let runs: Vec<Value> = sc["runs"].as_array().cloned().unwrap_or_default();
    let run_of = |j: usize| -> &Value { &runs[(j - 1).min(runs.len() - 1)] };
    let eph0 = eph_from_json(&sc["eph0"]);
    let mut out: Vec<Value> = Vec::new();
    let mut seq = 0usize;
    let mut emit = |out: &mut Vec<Value>, mut v: Value| {
        seq += 1;
        v["case"] = json!(case);
        v["seq"] = json!(seq);
        out.push(v);
    };
    emit(&mut out, json!({"ev": "reset", "instance": inst, "meta": sc["meta"].clone()}));
    let irrd = start_irrd(IrrDb::from_json(&run_of(1)["irr"]), "ok");
    let set_inputs = |j: usize, junos: &FakeJunos, irrd: &FakeIrrd| {
        let run = run_of(j);
        let mode = run["irr_mode"].as_str().unwrap_or("ok").to_string();
        *irrd.live.lock().unwrap() = (IrrDb::from_json(&run["irr"]), mode);
        let mut g = junos.state.lock().unwrap();
        g.running = run["running"].clone();
        g.faults = faults_of(&run["faults"]);
        g.refuse = run["router"].as_str() == Some("unreachable");
    };
    let junos = start_junos(run_of(1)["running"].clone(), eph0.clone(), vec![], acceptor.clone(), case.clone(), None).await;
    junos.state.lock().unwrap().caps11 = sc["caps11"].as_bool().unwrap_or(false);
    set_inputs(1, &junos, &irrd);
    let mut cmd = tokio::process::Command::new(&agent);
    vh::util::die_with_parent(&mut cmd);
    cmd.args(["-f", &period.to_string(), "--irrd-host", "127.0.0.1", "--irrd-port", &irrd.addr.port().to_string(), "--ephemeral-db", &inst,
              "remote", "--netconf-host", "127.0.0.1", "--netconf-port", &junos.addr.port().to_string(),
              "--ca-cert-path", &pki("ca.crt"), "--client-cert-path", &pki("client.crt"), "--client-key-path", &pki("client.key"),
              "--tls-server-name", "localhost"])
        .stdin(Stdio::null())
        .stdout(Stdio::null())
        .stderr(Stdio::piped())
        .kill_on_drop(true);
    let mut child = cmd.spawn().expect("spawn agent");
    let pid = child.id().unwrap_or(0) as i32;
    // the agent logs to standard error: keep reading, or it blocks once the pipe is full
    let errbuf: Arc<std::sync::Mutex<Vec<u8>>> = Arc::new(std::sync::Mutex::new(Vec::new()));
    if let Some(mut pipe) = child.stderr.take() {
        let errbuf = errbuf.clone();
        drop(tokio::spawn(async move {
            use tokio::io::AsyncReadExt;
            let mut b = [0u8; 16384];
            while let Ok(n) = pipe.read(&mut b).await {
                if n == 0 {
                    break;
                }
                errbuf.lock().unwrap().extend_from_slice(&b[..n]);
            }
        }));
    }
    let ended = |g: &JunosState| g.log.iter().filter(|e| e["ev"] == "session_end").count();
    // did session j end with an acknowledged commit and close-session?
    let succeeded = |g: &JunosState, j: usize| {
        let mine = |e: &&Value| e["session"] == json!(j) && e["ev"] == "req";
        g.log.iter().filter(mine).any(|e| e["kind"] == "commit" && e["committed"] == json!(true))
            && g.log.iter().filter(mine).any(|e| e["kind"] == "close-session")
    };
    // eph_before[j], eph_after[j] for session j (1-based)
    let mut eph_before: Vec<Eph> = vec![eph0.clone()];
    let mut eph_after: Vec<Eph> = Vec::new();
    // what the DAEMON made of job j: after a job it takes for successful the next one follows after the period,
    // after a failed one only after a minute or more
    let mut job_ok: Vec<bool> = Vec::new();
    let _ = succeeded;
    let deadline = std::time::Instant::now() + Duration::from_secs((period + 6) * nsess as u64 + 25);
    while eph_after.len() < nsess && std::time::Instant::now() < deadline {
        tokio::time::sleep(Duration::from_millis(15)).await;
        let done = {
            let g = junos.state.lock().unwrap();
            ended(&g) > eph_after.len()
        };
        if !done {
            continue;
        }
        let j = eph_after.len() + 1;
        {
            let mut g = junos.state.lock().unwrap();
            eph_after.push(g.eph.clone());
            if reset_before.contains(&(j + 1)) {
                g.eph = Eph::default();      // the router rebooted: ephemeral data is gone
            }
            eph_before.push(g.eph.clone());
        }
        set_inputs(j + 1, &junos, &irrd);
        // does the next job start by itself within the period (plus a generous margin)?
        let wait_until = std::time::Instant::now() + Duration::from_millis(period * 1000 + 4000);
        let mut came = false;
        while std::time::Instant::now() < wait_until {
            if junos.state.lock().unwrap().sessions > j {
                came = true;
                break;
            }
            tokio::time::sleep(Duration::from_millis(15)).await;
        }
        job_ok.push(came);
        if !came && j < nsess && pid > 0 {
            // the daemon is backing off: SIGHUP starts the next job at once
            unsafe { libc_kill(pid, 1) };
        }
    }
    if std::env::var("VERIF_DEBUG").is_ok() {
        eprintln!("daemon loop over: seen {} of {nsess}, timed out: {}", eph_after.len(), std::time::Instant::now() >= deadline);
    }
    // stop the daemon
    if pid > 0 {
        unsafe { libc_kill(pid, 15) };
    }
    let res = tokio::time::timeout(Duration::from_secs(10), child.wait()).await;
    let code = match res {
        Ok(Ok(st)) => st.code().unwrap_or(-1),
        _ => -3,
    };
    tokio::time::sleep(Duration::from_millis(20)).await;
    let stderr = String::from_utf8_lossy(&errbuf.lock().unwrap()).to_string();
    if let Ok(dir) = std::env::var("VERIF_KEEP_STDERR") {
        let _ = std::fs::write(format!("{dir}/{case}-daemon.stderr"), &stderr);
    }
    let log = junos.state.lock().unwrap().log.clone();
    for j in 1..=eph_after.len() {
        let run = run_of(j);
        if reset_before.contains(&j) {
            emit(&mut out, json!({"ev": "reboot", "run": j}));
        }
        let before = &eph_before[j - 1];
        emit(&mut out, json!({"ev": "run_start", "run": j, "running": run["running"], "eph": eph_to_json(before),
                              "den": den_map(eph_filters(before)), "repeat": run["repeat"].as_bool().unwrap_or(false) && !reset_before.contains(&j),
                              "expect": run["expect"], "irr_mode": run["irr_mode"].as_str().unwrap_or("ok"),
                              "faults": run["faults"], "twin": false, "style": "", "daemon": true,
                              "unreachable": run["router"].as_str() == Some("unreachable")}));
        let mut committed = false;
        let mut closed = false;
        for e in log.iter().filter(|e| e["session"] == json!(j)) {
            let mut e = e.clone();
            if e["ev"] == "req" && e["kind"] == "commit" && e["committed"] == json!(true) {
                committed = true;
            }
            if e["ev"] == "req" && e["kind"] == "close-session" {
                closed = true;
            }
            if e["ev"] == "session_end" && e["refused"] == json!(true) {
                continue;
            }
            e["run"] = json!(j);
            e.as_object_mut().unwrap().remove("seq");
            emit(&mut out, e);
        }
        // the outcome of a run in daemon mode is internal to the process: inferred from the router's view
        let _ = (committed, closed);
        emit(&mut out, json!({"ev": "exit", "run": j, "code": if job_ok.get(j - 1).copied().unwrap_or(false) { 0 } else { 1 }, "inferred": true, "timed_out": false,
                              "panicked": false, "panic_at": "", "wall_ms": 0, "stderr_error": "", "stderr_tail": ""}));
        let after = &eph_after[j - 1];
        emit(&mut out, json!({"ev": "run_end", "run": j, "eph": eph_to_json(after), "den": den_map(eph_filters(after))}));
    }
    emit(&mut out, json!({"ev": "daemon_end", "sessions_seen": eph_after.len(), "sessions_wanted": nsess, "exit_code": code,
                          "panic_at": stderr.lines().find(|l| l.contains("panicked at")).map(|l| l.chars().filter(|c| !c.is_control()).take(200).collect::<String>()).unwrap_or_default()}));
    out
}

extern "C" {
    #[link_name = "kill"]
    fn libc_kill(pid: i32, sig: i32) -> i32;
}

fn main() {
    let args: Vec<String> = std::env::args().collect();
    match args.get(1).map(String::as_str) {
        Some("agent") => {
            // agentrun agent <scenarios.ndjson> <agent-binary> [concurrency]
            let scenarios: Vec<Value> = std::fs::read_to_string(&args[2])
                .expect("scenarios")
                .lines()
                .filter(|l| !l.trim().is_empty())
                .map(|l| serde_json::from_str(l).expect("scenario json"))
                .collect();
            let agent = args[3].clone();
            let conc: usize = args.get(4).and_then(|s| s.parse().ok()).unwrap_or(8);
            let rt = tokio::runtime::Builder::new_multi_thread().worker_threads(8).enable_all().build().unwrap();
            let acceptor = tls_acceptor();
            rt.block_on(async move {
                let sem = Arc::new(tokio::sync::Semaphore::new(conc));
                let mut handles = std::collections::VecDeque::new();
                let stdout = std::io::stdout();
                for sc in scenarios {
                    let permit = sem.clone().acquire_owned().await.unwrap();
                    let (agent, acceptor) = (agent.clone(), acceptor.clone());
                    handles.push_back(tokio::spawn(async move {
                        let r = if sc["daemon"].is_object() { run_daemon_scenario(sc, agent, acceptor).await } else { run_scenario(sc, agent, acceptor).await };
                        drop(permit);
                        r
                    }));
                    while handles.len() > conc * 2 {
                        for e in handles.pop_front().unwrap().await.unwrap_or_default() {
                            writeln!(stdout.lock(), "{e}").unwrap();
                        }
                    }
                }
                while let Some(h) = handles.pop_front() {
                    for e in h.await.unwrap_or_default() {
                        writeln!(stdout.lock(), "{e}").unwrap();
                    }
                }
            });
        }
        Some("clibridge") => {
            // agentrun clibridge <port>: what the /usr/sbin/cli shim execs - copies stdin to the fake router and the
            // router's output to stdout, like `cli xml-mode netconf need-trailer` does on a Junos system
            use std::io::Read;
            let port: u16 = args[2].parse().expect("port");
            let sock = std::net::TcpStream::connect(("127.0.0.1", port)).expect("connect to the fake router");
            let _ = sock.set_nodelay(true);
            let mut up = sock.try_clone().expect("clone");
            let mut down = sock;
            std::thread::spawn(move || {
                let mut b = [0u8; 16384];
                let mut stdin = std::io::stdin();
                loop {
                    match stdin.read(&mut b) {
                        Ok(n) if n > 0 => {
                            if up.write_all(&b[..n]).is_err() {
                                break;
                            }
                        }
                        _ => break,
                    }
                }
                let _ = up.shutdown(std::net::Shutdown::Write);
            });
            let mut b = [0u8; 16384];
            let mut stdout = std::io::stdout();
            loop {
                match down.read(&mut b) {
                    Ok(n) if n > 0 => {
                        if stdout.write_all(&b[..n]).is_err() || stdout.flush().is_err() {
                            break;
                        }
                    }
                    _ => break,
                }
            }
            std::process::exit(0);
        }
        Some("irrd") => {
            // agentrun irrd <db.json>: stand-alone fake IRRd for manual experiments; prints the port
            let db: Value = serde_json::from_str(&std::fs::read_to_string(&args[2]).expect("db")).expect("json");
            let irrd = start_irrd(IrrDb::from_json(&db), "ok");
            println!("{}", irrd.addr.port());
            loop {
                std::thread::sleep(Duration::from_secs(3600));
            }
        }
        _ => {
            eprintln!("usage: agentrun agent <scenarios.ndjson> <agent-binary> [concurrency] | agentrun irrd <db.json>");
            std::process::exit(2);
        }
    }
}
