//! C19: drives the agent's real daemon loop (Loop::start, via the verif facade) under tokio's
//! paused clock with a scripted job, raising real signals at prescribed virtual instants, and
//! records the timeline.  One process per case (signal dispositions are process-global).
use std::{num::NonZeroU64, time::Duration};

use bgpfu_junos_agent::verif::{self, Event, Job};
use serde_json::{json, Value};
use tokio::time::{self, Instant};

fn sig(name: &str) -> libc::c_int {
    match name {
        "hup" => libc::SIGHUP,
        "int" => libc::SIGINT,
        _ => libc::SIGTERM,
    }
}

fn run_case(case: &Value) -> Vec<Value> {
    let period = case["period"].as_u64().unwrap_or(60);
    let jobs: Vec<Job> = case["jobs"]
        .as_array()
        .map(|a| {
            a.iter()
                .map(|j| Job { ok: j["ok"].as_bool().unwrap_or(true), duration: Duration::from_secs(j["dur"].as_u64().unwrap_or(0)) })
                .collect()
        })
        .unwrap_or_default();
    let njobs = jobs.len();
    // signals: {"after": k (number of finished jobs), "delay": d seconds after that job finished, "sig": name}
    // "same_poll": the signal is raised one second before `delay` and the clock advanced at once, without letting the
    // loop run in between - signal and timer (if the loop waits exactly `delay`) become ready in the same poll
    let signals: Vec<(usize, u64, String, bool)> = case["signals"]
        .as_array()
        .map(|a| {
            a.iter()
                .filter(|s| !s["during"].as_bool().unwrap_or(false))
                .map(|s| {
                    (s["after"].as_u64().unwrap_or(0) as usize, s["delay"].as_u64().unwrap_or(1), s["sig"].as_str().unwrap_or("term").to_string(),
                     s["same_poll"].as_bool().unwrap_or(false))
                })
                .collect()
        })
        .unwrap_or_default();
    // "during": the signal is raised while a run is in progress, `delay` seconds after the start of the run that
    // follows `after` finished ones
    let mut during: Vec<(usize, u64, String)> = case["signals"]
        .as_array()
        .map(|a| {
            a.iter()
                .filter(|s| s["during"].as_bool().unwrap_or(false))
                .map(|s| (s["after"].as_u64().unwrap_or(0) as usize, s["delay"].as_u64().unwrap_or(1), s["sig"].as_str().unwrap_or("term").to_string()))
                .collect()
        })
        .unwrap_or_default();
    let horizon = case["horizon"].as_u64().unwrap_or(4000);
    let rt = tokio::runtime::Builder::new_current_thread().enable_all().start_paused(true).build().unwrap();
    rt.block_on(async move {
        let mut out = vec![json!({"ev": "cfg", "period": period})];
        verif::install(jobs, true);
        let start = Instant::now();
        let handle = tokio::spawn(verif::daemon_loop(NonZeroU64::new(period.max(1)).unwrap()));
        let settle = |n: usize| async move {
            for _ in 0..n {
                tokio::task::yield_now().await;
            }
        };
        settle(300).await;
        let mut seen = 0usize;       // log entries consumed
        let mut finished = 0usize;   // jobs finished
        let mut running = false;
        let mut last_finish = 0u64;
        let mut last_start = 0u64;
        let mut pending: Vec<(usize, u64, String, bool)> = signals;
        let mut log: Vec<Event> = Vec::new();
        let mut sec = 0u64;
        loop {
            // harvest the scripted job's log
            let new = verif::take_log();
            log.extend(new);
            while seen < log.len() {
                match log[seen] {
                    Event::Started(t) => {
                        running = true;
                        last_start = t.duration_since(start).as_secs();
                        out.push(json!({"ev": "start", "t": last_start, "n": finished + 1}));
                    }
                    Event::Finished(t, ok) => {
                        running = false;
                        finished += 1;
                        last_finish = t.duration_since(start).as_secs();
                        out.push(json!({"ev": "finish", "t": last_finish, "ok": ok, "n": finished}));
                    }
                }
                seen += 1;
            }
            if handle.is_finished() {
                break;
            }
            // signals due while a run is in progress
            if running {
                let mut k = 0;
                while k < during.len() {
                    if during[k].0 == finished && sec == last_start + during[k].1 {
                        let (_, _, name) = during.remove(k);
                        out.push(json!({"ev": "signal", "t": sec, "sig": name, "during": true}));
                        unsafe {
                            libc::raise(sig(&name));
                        }
                        settle(400).await;
                        continue;
                    }
                    k += 1;
                }
                if handle.is_finished() {
                    continue;
                }
            }
            // due signals while the loop is waiting
            if !running {
                let now = sec;
                let mut k = 0;
                while k < pending.len() {
                    let (after, delay, _, same_poll) = &pending[k];
                    if *same_poll && *after == finished && now + 1 == last_finish + *delay {
                        let (_, _, name, _) = pending.remove(k);
                        out.push(json!({"ev": "signal", "t": now + 1, "sig": name, "same_poll": true}));
                        unsafe {
                            libc::raise(sig(&name));
                        }
                        // no settle: the loop is polled next when the clock has moved on
                        continue;
                    }
                    if !*same_poll && *after == finished && now == last_finish + *delay {
                        let (_, _, name, _) = pending.remove(k);
                        out.push(json!({"ev": "signal", "t": now, "sig": name}));
                        unsafe {
                            libc::raise(sig(&name));
                        }
                        settle(400).await;
                        continue;
                    }
                    k += 1;
                }
                if handle.is_finished() {
                    continue;
                }
            }
            if sec >= horizon || (finished >= njobs + 2 && pending.is_empty() && during.is_empty()) {
                break;
            }
            time::advance(Duration::from_secs(1)).await;
            sec += 1;
            settle(6).await;
        }
        if handle.is_finished() {
            let r = handle.await;
            let ok = matches!(r, Ok(Ok(())));
            out.push(json!({"ev": "exit", "t": sec, "ok": ok}));
        } else {
            handle.abort();
            out.push(json!({"ev": "end", "t": sec}));
        }
        verif::uninstall();
        out
    })
}

fn main() {
    let args: Vec<String> = std::env::args().collect();
    match args.get(1).map(String::as_str) {
        Some("one") => {
            let case: Value = serde_json::from_str(&args[2]).expect("case");
            let name = case["case"].as_str().unwrap_or("?").to_string();
            let evs = std::panic::catch_unwind(|| run_case(&case)).unwrap_or_else(|_| vec![json!({"ev": "panic"})]);
            println!("{}", json!({"ev": "reset", "case": name, "seq": 0, "meta": case}));
            for (k, mut e) in evs.into_iter().enumerate() {
                e["case"] = json!(name);
                e["seq"] = json!(k + 1);
                println!("{e}");
            }
        }
        Some("run") => {
            // daemon run <cases.ndjson> [concurrency]: one child process per case
            let cases: Vec<String> = std::fs::read_to_string(&args[2]).expect("cases").lines().filter(|l| !l.trim().is_empty()).map(String::from).collect();
            let conc: usize = args.get(3).and_then(|s| s.parse().ok()).unwrap_or(12);
            let exe = std::env::current_exe().unwrap();
            let mut idx = 0;
            let mut running: Vec<(usize, std::process::Child)> = Vec::new();
            let mut results: std::collections::BTreeMap<usize, String> = Default::default();
            let mut next_print = 0;
            while idx < cases.len() || !running.is_empty() {
                while running.len() < conc && idx < cases.len() {
                    let child = std::process::Command::new(&exe)
                        .arg("one")
                        .arg(&cases[idx])
                        .stdout(std::process::Stdio::piped())
                        .stderr(std::process::Stdio::null())
                        .spawn()
                        .expect("spawn");
                    running.push((idx, child));
                    idx += 1;
                }
                let (i, child) = running.remove(0);
                let out = child.wait_with_output().expect("wait");
                results.insert(i, String::from_utf8_lossy(&out.stdout).to_string());
                while let Some(s) = results.remove(&next_print) {
                    print!("{s}");
                    next_print += 1;
                }
            }
        }
        _ => {
            eprintln!("usage: daemon run <cases.ndjson> [concurrency] | daemon one <case-json>");
            std::process::exit(2);
        }
    }
}
