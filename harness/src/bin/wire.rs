//! Wire-layer conformance driver (C08 reply classification, C09 capability gate, C12 hello).
//! Cases come from TLC (spec/WireGen.tla); results go out as ndjson for spec/WireTrace.tla.
use std::io::Write;

use netconf::message::{
    rpc::operation::{
        self,
        edit_config::{ErrorOption, TestOption},
        junos::{
            load_configuration::{Config, Merge, Xml},
            CloseConfiguration, CommitConfiguration, LoadConfiguration, LockConfiguration,
            OpenConfiguration, UnlockConfiguration,
        },
        Builder, CancelCommit, Commit, CopyConfig, Datastore, DeleteConfig, DiscardChanges,
        EditConfig, Filter, Get, GetConfig, KillSession, Lock, Opaque, Token, Unlock, Validate,
    },
    ReadError, ReadXml, WriteError, WriteXml,
};
use quick_xml::{events::BytesStart, NsReader, Writer};
use rand::{Rng, SeedableRng};
use serde_json::{json, Value};
use vh::{call_rpc, util::*, wsess::*};

/// payload written verbatim
#[derive(Debug, Clone)]
struct Raw(String);
impl WriteXml for Raw {
    fn write_xml<W: Write>(&self, writer: &mut Writer<W>) -> Result<(), WriteError> {
        writer
            .get_mut()
            .write_all(self.0.as_bytes())
            .map_err(|e| WriteError::Other(e.into()))
    }
}

/// payload whose serialisation fails half-way (after having written something)
#[derive(Debug, Clone)]
struct FailingRaw;
impl WriteXml for FailingRaw {
    fn write_xml<W: Write>(&self, writer: &mut Writer<W>) -> Result<(), WriteError> {
        let _ = writer.get_mut().write_all(b"<half-written><x>");
        Err(WriteError::Other("verif: payload writer failed".into()))
    }
}

/// reply data read as text
#[derive(Debug, Clone)]
struct Txt(String);
impl ReadXml for Txt {
    fn read_xml(reader: &mut NsReader<&[u8]>, start: &BytesStart<'_>) -> Result<Self, ReadError> {
        let end = start.to_end();
        Ok(Txt(reader.read_text(end.name())?.to_string()))
    }
}

const ERR_TYPES: [&str; 4] = ["transport", "rpc", "protocol", "application"];
const ERR_TAGS: [&str; 8] = [
    "in-use",
    "invalid-value",
    "too-big",
    "bad-element",
    "access-denied",
    "lock-denied",
    "data-missing",
    "operation-failed",
];

fn rpc_error_xml(k: usize, severity: &str) -> String {
    format!(
        "<rpc-error><error-type>{}</error-type><error-tag>{}</error-tag><error-severity>{}</error-severity><error-message>m{}</error-message></rpc-error>",
        ERR_TYPES[k % 4], ERR_TAGS[k % 8], severity, k
    )
}

/// Render a token tree as the body of an <rpc-reply>; rpc-errors are numbered in document order.
fn render_tokens(top: &[String], inner: &[String]) -> String {
    render_tokens_with(top, inner, false)
}

/// `same`: every <rpc-error> of the reply is field-for-field the same element (number 1)
fn render_tokens_with(top: &[String], inner: &[String], same: bool) -> String {
    let mut k = 0usize;
    let mut s = String::new();
    for t in top {
        match t.as_str() {
            "ok" => s.push_str("<ok/>"),
            "data" => s.push_str("<data>some data</data>"),
            "E" => {
                k += 1;
                s.push_str(&rpc_error_xml(if same { 1 } else { k }, "error"));
            }
            "W" => {
                k += 1;
                s.push_str(&rpc_error_xml(if same { 1 } else { k }, "warning"));
            }
            "cmt" => s.push_str("<!-- a comment -->"),
            "x" => s.push_str("<unknown-element/>"),
            "res" => {
                s.push_str("<load-configuration-results>");
                for i in inner {
                    match i.as_str() {
                        "ok" => s.push_str("<ok/>"),
                        "E" => {
                            k += 1;
                            s.push_str(&rpc_error_xml(if same { 1 } else { k }, "error"));
                        }
                        "W" => {
                            k += 1;
                            s.push_str(&rpc_error_xml(if same { 1 } else { k }, "warning"));
                        }
                        "cmt" => s.push_str("<!-- inner comment -->"),
                        "c0" => s.push_str("<load-error-count>0</load-error-count>"),
                        "c1" => s.push_str("<load-error-count>1</load-error-count>"),
                        "c2" => s.push_str("<load-error-count>2</load-error-count>"),
                        _ => {}
                    }
                }
                s.push_str("</load-configuration-results>");
            }
            _ => {}
        }
    }
    s
}

fn reply_msg(id: u64, body: &str) -> String {
    format!("<rpc-reply message-id=\"{id}\" xmlns=\"{BASE_NS}\">{body}</rpc-reply>{EOM}")
}

/// (outcome class, error indices) of a library result
fn classify<T>(r: Result<Result<T, netconf::Error>, String>) -> (String, Vec<u64>, String) {
    match r {
        Err(why) => (why.split(':').next().unwrap_or("?").to_string(), vec![], why),
        Ok(Ok(_)) => ("ok".into(), vec![], String::new()),
        Ok(Err(netconf::Error::RpcError(errs))) => {
            let mut idx = Vec::new();
            for e in errs.iter() {
                let d = format!("{e:?}");
                // the message text "m<k>" identifies the error
                let k = d
                    .split("inner: \"m")
                    .nth(1)
                    .and_then(|r| r.split('"').next())
                    .and_then(|n| n.parse::<u64>().ok())
                    .unwrap_or(0);
                idx.push(k);
            }
            ("rpcerror".into(), idx, String::new())
        }
        Ok(Err(e)) => (err_class(&e).to_string(), vec![], e.to_string()),
    }
}

fn strs(v: &Value) -> Vec<String> {
    v.as_array()
        .map(|a| a.iter().filter_map(|x| x.as_str().map(String::from)).collect())
        .unwrap_or_default()
}

const OPS_EMPTY: &[&str] = &[
    "lock", "unlock", "discard-changes", "commit", "commit-configuration", "edit-config",
    "copy-config", "delete-config", "validate", "cancel-commit", "kill-session", "close-session",
];
const OPS_DATA: &[&str] = &["get", "get-config", "get-config-typed"];
const OPS_BARE: &[&str] = &[
    "open-configuration", "close-configuration", "lock-configuration", "unlock-configuration",
];
const OPS_LOAD: &[&str] = &["load-configuration"];

/// the same reply with the base namespace bound to the prefix `nc:` (information-equivalent)
fn prefixed(msg: &str) -> String {
    let body = msg.strip_suffix(EOM).unwrap_or(msg);
    let st = Style { pfx: true, ..Style::default() };
    match xmlgen::restyle(body, &st, &[]) {
        Ok(r) => format!("{r}{EOM}"),
        Err(_) => msg.to_string(),
    }
}

/// Run one operation against a reply body; returns (outcome, errs, detail)
fn run_op(op: &str, body: &str) -> (String, Vec<u64>, String) {
    run_op_ns(op, body, false)
}

fn run_op_ns(op: &str, body: &str, pfx: bool) -> (String, Vec<u64>, String) {
    let mut ws = WSess::with_caps(ALL_CAPS);
    let reply = |id: u64| Some(if pfx { prefixed(&reply_msg(id, body)) } else { reply_msg(id, body) });
    macro_rules! go {
        ($ty:ty, $build:expr) => {{
            let (_sent, r) = call_rpc!(ws, $ty, $build, reply);
            classify(r)
        }};
    }
    match op {
        "lock" => go!(Lock, |b| b.target(Datastore::Running)?.finish()),
        "unlock" => go!(Unlock, |b| b.target(Datastore::Running)?.finish()),
        "discard-changes" => go!(DiscardChanges, |b| b.finish()),
        "commit" => go!(Commit, |b| b.finish()),
        "commit-configuration" => go!(CommitConfiguration, |b| b.finish()),
        "edit-config" => go!(EditConfig<Raw>, |b| b
            .target(Datastore::Candidate)?
            .config(Raw("<a/>".into()))
            .finish()),
        "copy-config" => go!(CopyConfig, |b| b
            .target(Datastore::Candidate)?
            .source(Datastore::Running)?
            .finish()),
        "delete-config" => go!(DeleteConfig, |b| b.target(Datastore::Candidate)?.finish()),
        "validate" => go!(Validate, |b| b.source(Datastore::Candidate)?.finish()),
        "cancel-commit" => go!(CancelCommit, |b| b.finish()),
        "kill-session" => go!(KillSession, |b| b.session_id(99)?.finish()),
        "close-session" => {
            let mut outer: BoxFut<_> = Box::pin(ws.session.close());
            let ctl = ws.ctl.clone();
            match drive(&mut outer, 8) {
                Driven::Ready(Ok(fut)) => {
                    let id = ctl.sent().last().and_then(|m| message_id_of(m)).unwrap_or(0);
                    ctl.push(if pfx { prefixed(&reply_msg(id, body)) } else { reply_msg(id, body) });
                    let mut inner: BoxFut<_> = Box::pin(fut);
                    match drive(&mut inner, 16) {
                        Driven::Ready(r) => classify(Ok(r)),
                        Driven::Hung => classify::<()>(Err("hang".into())),
                    }
                }
                Driven::Ready(Err(e)) => classify::<()>(Err(format!("local:{e}"))),
                Driven::Hung => classify::<()>(Err("hang-in-rpc".into())),
            }
        }
        "get" => go!(Get, |b| b.filter(None).finish()),
        "get-config" => go!(GetConfig<Opaque>, |b| b.source(Datastore::Running)?.finish()),
        "get-config-typed" => go!(GetConfig<Txt>, |b| b.source(Datastore::Running)?.finish()),
        "open-configuration" => go!(OpenConfiguration, |b| b.ephemeral(Some("inst")).finish()),
        "close-configuration" => go!(CloseConfiguration, |b| b.finish()),
        "lock-configuration" => go!(LockConfiguration, |b| b.finish()),
        "unlock-configuration" => go!(UnlockConfiguration, |b| b.finish()),
        "load-configuration" => go!(LoadConfiguration<_>, |b| b
            .source(Config::new(Raw("<configuration/>".into()), Xml, Merge))
            .finish()),
        _ => ("unknown-op".into(), vec![], String::new()),
    }
}

fn c08(cases_path: &str, quick: bool, out: &mut dyn Write) {
    let v: Value = serde_json::from_str(&std::fs::read_to_string(cases_path).unwrap()).unwrap();
    let cases = v["cases"].as_array().unwrap();
    for (k, c) in cases.iter().enumerate() {
        let ty = c["type"].as_str().unwrap();
        let top = strs(&c["top"]);
        let inner = strs(&c["inner"]);
        let body = render_tokens(&top, &inner);
        let ops: &[&str] = match ty {
            "empty" => OPS_EMPTY,
            "data" => OPS_DATA,
            "bare" => OPS_BARE,
            _ => OPS_LOAD,
        };
        // quick: rotate through the operations of the type, thorough: every operation
        let chosen: Vec<&str> = if quick {
            vec![ops[k % ops.len()], ops[(k / 7 + 3) % ops.len()]]
        } else {
            ops.to_vec()
        };
        let mut seen = Vec::new();
        for op in chosen {
            if seen.contains(&op) {
                continue;
            }
            seen.push(op);
            let nerr = top.iter().chain(if top.iter().any(|t| t == "res") { inner.iter() } else { [].iter() }).filter(|t| *t == "E" || *t == "W").count();
            for same in [false, true] {
                // the same reply once more with all its <rpc-error>s identical (only if there are several)
                if same && nerr < 2 {
                    continue;
                }
                let body = if same { render_tokens_with(&top, &inner, true) } else { body.clone() };
                // every reply in both namespace styles: default namespace, and the base namespace bound to a prefix
                // 0: default namespace, 1: the base namespace bound to a prefix, 2: the reply is taken off the transport
                // and parked for its owner by another request's future
                for variant in 0..3 {
                    let pfx = variant == 1;
                    let parked = variant == 2;
                    if pfx && (same || (quick && k % 3 != 0 && nerr == 0)) {
                        continue;
                    }
                    if parked && (same || op == "close-session" || (quick && k % 4 != 1)) {
                        continue;
                    }
                    PARKED.store(parked, std::sync::atomic::Ordering::Relaxed);
                    let r = std::panic::catch_unwind(|| run_op_ns(op, &body, pfx));
                    PARKED.store(false, std::sync::atomic::Ordering::Relaxed);
                    let (outcome, errs, detail) = r.unwrap_or_else(|_| ("panic".into(), vec![], String::new()));
                    writeln!(
                        out,
                        "{}",
                        json!({"ev": "c08", "case": k, "type": ty, "op": op, "top": top, "inner": inner, "same": same, "prefixed": pfx, "parked": parked,
                               "outcome": outcome, "errs": errs, "detail": detail})
                    )
                    .unwrap();
                }
            }
        }
    }
}

// ---------------------------------------------------------------------------------------------
// C09

fn cap_uri(name: &str) -> Option<&'static str> {
    Some(match name {
        "wr" => "urn:ietf:params:netconf:capability:writable-running:1.0",
        "cand" => "urn:ietf:params:netconf:capability:candidate:1.0",
        "cc10" => "urn:ietf:params:netconf:capability:confirmed-commit:1.0",
        "cc11" => "urn:ietf:params:netconf:capability:confirmed-commit:1.1",
        "roe" => "urn:ietf:params:netconf:capability:rollback-on-error:1.0",
        "val10" => "urn:ietf:params:netconf:capability:validate:1.0",
        "val11" => "urn:ietf:params:netconf:capability:validate:1.1",
        "startup" => "urn:ietf:params:netconf:capability:startup:1.0",
        "xpath" => "urn:ietf:params:netconf:capability:xpath:1.0",
        "junos" => JUNOS_CAP,
        _ => return None,
    })
}

fn hello_for(caps: &[String]) -> String {
    let mut uris: Vec<String> = vec!["urn:ietf:params:netconf:base:1.0".into()];
    let mut schemes: Vec<&str> = Vec::new();
    for c in caps {
        if let Some(u) = cap_uri(c) {
            uris.push(u.into());
        } else if let Some(s) = c.strip_prefix("url-") {
            schemes.push(s);
        }
    }
    if !schemes.is_empty() {
        uris.push(format!(
            "urn:ietf:params:netconf:capability:url:1.0?scheme={}",
            schemes.join(",")
        ));
    }
    // for every standard capability the server does NOT have: URIs that resemble it and are something else (the XML
    // namespace form some servers list next to the capabilities, a version nobody defined)
    for name in ["wr", "cand", "cc10", "cc11", "roe", "val10", "val11", "startup", "xpath"] {
        if !caps.iter().any(|c| c == name) {
            let u = cap_uri(name).unwrap();
            uris.push(u.replace("urn:ietf:params:netconf:capability:", "urn:ietf:params:xml:ns:netconf:capability:"));
            let stem = u.rsplit_once(':').map(|(a, _)| a).unwrap_or(u);
            uris.push(format!("{stem}:9.9"));
        }
    }
    // capabilities a real server also sends and that must not matter
    uris.push("urn:ietf:params:xml:ns:yang:ietf-netconf-monitoring".into());
    uris.push("http://xml.juniper.net/dmi/system/1.0".into());
    let refs: Vec<&str> = uris.iter().map(String::as_str).collect();
    server_hello(&refs, 7)
}

fn ds(name: &str) -> Datastore {
    match name {
        "candidate" => Datastore::Candidate,
        "startup" => Datastore::Startup,
        _ => Datastore::Running,
    }
}

fn url_for(scheme: &str) -> String {
    format!("{scheme}://host.example/path/cfg.xml")
}

/// Issue the request with exactly the parameters the content has; returns (sent, local error, wire)
static REPLY_TAG: std::sync::Mutex<Option<String>> = std::sync::Mutex::new(None);

fn attempt(ws: &mut WSess, c: &Value) -> (bool, String, String) {
    attempt_ordered(ws, c, false)
}

/// `rev`: the builder methods that set parameters are called in the reverse order
fn attempt_ordered(ws: &mut WSess, c: &Value, rev: bool) -> (bool, String, String) {
    let op = c["op"].as_str().unwrap();
    let tgt = c["tgt"].as_str().unwrap();
    let src = c["src"].as_str().unwrap();
    let filt = c["filt"].as_str().unwrap();
    let scheme = c["scheme"].as_str().unwrap();
    let confirmed = c["confirmed"].as_bool().unwrap();
    let timeout = c["timeout"].as_bool().unwrap();
    let persist = c["persist"].as_bool().unwrap();
    let persistid = c["persistid"].as_bool().unwrap();
    let testopt = c["testopt"].as_str().unwrap();
    let erropt = c["erropt"].as_str().unwrap();
    let filter = match filt {
        "subtree" => Some(Filter::Subtree("<top/>".into())),
        "xpath" => Some(Filter::XPath("/top/a".into())),
        _ => None,
    };
    let before = ws.ctl.sent_len();
    // (C09 histories: the server answers with an rpc-error of the tag in REPLY_TAG; otherwise it does not answer at all)
    let noreply = |id: u64| -> Option<String> {
        REPLY_TAG.lock().unwrap().as_ref().map(|tag| {
            reply_msg(id, &format!("<rpc-error><error-type>protocol</error-type><error-tag>{tag}</error-tag><error-severity>error</error-severity><error-message>refused by the server</error-message></rpc-error>"))
        })
    };
    macro_rules! go {
        ($ty:ty, $build:expr) => {{
            let (sent, r) = call_rpc!(ws, $ty, $build, noreply);
            let local = match r {
                Err(why) if why.starts_with("local:") => why,
                _ => String::new(),
            };
            (sent, local)
        }};
    }
    let (sent, local) = match op {
        "get" => go!(Get, move |b| b.filter(filter).finish()),
        "get-config" => {
            let src = src.to_string();
            go!(GetConfig<Opaque>, move |b| {
                let b = if src == "none" { b } else { b.source(ds(&src))? };
                b.filter(filter)?.finish()
            })
        }
        "edit-config" => {
            let (tgt, scheme, src, testopt, erropt) =
                (tgt.to_string(), scheme.to_string(), src.to_string(), testopt.to_string(), erropt.to_string());
            go!(EditConfig<Raw>, move |b| {
                let mut b = if tgt == "none" { b } else { b.target(ds(&tgt))? };
                b = match testopt.as_str() {
                    "test-then-set" => b.test_option(TestOption::TestThenSet)?,
                    "set" => b.test_option(TestOption::Set)?,
                    "test-only" => b.test_option(TestOption::TestOnly)?,
                    _ => b,
                };
                b = match erropt.as_str() {
                    "stop-on-error" => b.error_option(ErrorOption::StopOnError)?,
                    "continue-on-error" => b.error_option(ErrorOption::ContinueOnError)?,
                    "rollback-on-error" => b.error_option(ErrorOption::RollbackOnError)?,
                    _ => b,
                };
                if src == "url" {
                    b.url(url_for(&scheme))?.finish()
                } else if src == "none" {
                    b.finish()
                } else {
                    b.config(Raw("<a/>".into())).finish()
                }
            })
        }
        "copy-config" => {
            let (tgt, src) = (tgt.to_string(), src.to_string());
            go!(CopyConfig, move |b| {
                let b = if tgt == "none" { b } else { b.target(ds(&tgt))? };
                if src == "config" {
                    b.config("<a/>".into()).finish()
                } else if src == "none" {
                    b.finish()
                } else {
                    b.source(ds(&src))?.finish()
                }
            })
        }
        "delete-config" => {
            let (tgt, scheme) = (tgt.to_string(), scheme.to_string());
            go!(DeleteConfig, move |b| {
                if tgt == "url" {
                    b.url(url_for(&scheme))?.finish()
                } else if tgt == "none" {
                    b.finish()
                } else {
                    b.target(ds(&tgt))?.finish()
                }
            })
        }
        "lock" => {
            let tgt = tgt.to_string();
            go!(Lock, move |b| if tgt == "none" { b.finish() } else { b.target(ds(&tgt))?.finish() })
        }
        "unlock" => {
            let tgt = tgt.to_string();
            go!(Unlock, move |b| if tgt == "none" { b.finish() } else { b.target(ds(&tgt))?.finish() })
        }
        "validate" => {
            let src = src.to_string();
            go!(Validate, move |b| {
                if src == "config" {
                    b.config("<a/>".into()).finish()
                } else if src == "none" {
                    b.finish()
                } else {
                    b.source(ds(&src))?.finish()
                }
            })
        }
        "commit" => go!(Commit, move |b| {
            let mut b = b;
            let mut steps: Vec<u8> = Vec::new();
            if confirmed {
                steps.push(0);
            }
            if timeout {
                steps.push(1);
            }
            if persist {
                steps.push(2);
            }
            if persistid {
                steps.push(3);
            }
            if rev {
                steps.reverse();
            }
            for s in steps {
                b = match s {
                    0 => b.confirmed(true)?,
                    1 => b.confirm_timeout(std::time::Duration::from_secs(120))?,
                    2 => b.persist(Some(Token::new("tok-1")))?,
                    _ => b.persist_id(Some(Token::new("tok-1")))?,
                };
            }
            b.finish()
        }),
        "cancel-commit" => go!(CancelCommit, move |b| {
            let mut b = b;
            if persistid {
                b = b.persist_id(Some(Token::new("tok-1")))?;
            }
            b.finish()
        }),
        "discard-changes" => go!(DiscardChanges, |b| b.finish()),
        "kill-session" => go!(KillSession, |b| b.session_id(99)?.finish()),
        "close-session" => {
            // consumes the session: use a clone of the hello on a throw-away session
            return (true, String::new(), "skip".into());
        }
        "open-configuration" => go!(OpenConfiguration, |b| b.ephemeral(Some("inst")).finish()),
        "close-configuration" => go!(CloseConfiguration, |b| b.finish()),
        "lock-configuration" => go!(LockConfiguration, |b| b.finish()),
        "unlock-configuration" => go!(UnlockConfiguration, |b| b.finish()),
        "load-configuration" => go!(LoadConfiguration<_>, |b| b
            .source(Config::new(Raw("<configuration/>".into()), Xml, Merge))
            .finish()),
        "commit-configuration" => go!(CommitConfiguration, |b| b.finish()),
        _ => (false, "local:unknown-op".to_string()),
    };
    let wire = if sent {
        String::from_utf8_lossy(&ws.ctl.sent()[before]).to_string()
    } else {
        String::new()
    };
    (sent, local, wire)
}

/// What the request that went out uses, read off the bytes with the harness' own XML parser: the same record as a
/// Wire!Content.  C09 is about this - whatever the caller asked for and however the request was built.
fn derive_content(wire: &str) -> Option<Value> {
    use vh::xmlgen::{parse_document, PElem, PNode};
    let body = wire.strip_suffix(EOM).unwrap_or(wire);
    let root = parse_document(body).ok()?;
    let local = |n: &str| n.rsplit(':').next().unwrap_or(n).to_string();
    let kids = |e: &PElem| -> Vec<PElem> { e.kids.iter().filter_map(|k| if let PNode::Elem(x) = k { Some(x.clone()) } else { None }).collect() };
    let op_el = kids(&root).into_iter().next()?;
    let op = local(&op_el.name);
    let child = |e: &PElem, n: &str| kids(e).into_iter().find(|k| local(&k.name) == n);
    let store = |e: Option<PElem>| -> (String, String) {
        // (datastore | "url" | "config" | "none", url scheme | "none")
        match e {
            None => ("none".into(), "none".into()),
            Some(e) => match kids(&e).into_iter().next() {
                None => ("none".into(), "none".into()),
                Some(k) => {
                    let n = local(&k.name);
                    if n == "url" {
                        let t = k.text();
                        ("url".into(), t.trim().split("://").next().unwrap_or("").to_lowercase())
                    } else {
                        (n, "none".into())
                    }
                }
            },
        }
    };
    let (mut tgt, mut scheme) = store(child(&op_el, "target"));
    let (mut src, s2) = store(child(&op_el, "source"));
    if scheme == "none" {
        scheme = s2;
    }
    if child(&op_el, "config").is_some() {
        src = "config".into();
    }
    if let Some(u) = child(&op_el, "url") {
        // edit-config: <url> directly below the operation
        src = "url".into();
        scheme = u.text().trim().split("://").next().unwrap_or("").to_lowercase();
    }
    if op == "validate" || op == "get-config" {
        tgt = "none".into();
    }
    let filt = child(&op_el, "filter").map(|f| f.attr("type").unwrap_or("subtree").to_string()).unwrap_or_else(|| "none".into());
    let text_of = |n: &str| child(&op_el, n).map(|e| e.text().trim().to_string());
    let known_scheme = ["file", "http", "ftp", "https"].contains(&scheme.as_str()) || scheme == "none";
    Some(json!({"op": op, "tgt": tgt, "src": src, "filt": filt, "scheme": if known_scheme { scheme } else { "other".into() },
                "confirmed": child(&op_el, "confirmed").is_some(), "timeout": child(&op_el, "confirm-timeout").is_some(),
                "persist": child(&op_el, "persist").is_some(), "persistid": child(&op_el, "persist-id").is_some(),
                "testopt": text_of("test-option").unwrap_or_else(|| "none".into()),
                "erropt": text_of("error-option").unwrap_or_else(|| "none".into())}))
}

/// Does the request on the wire carry the content (operation element and the parameters)?
fn wire_matches(c: &Value, wire: &str) -> bool {
    let op = c["op"].as_str().unwrap();
    if !wire.contains(&format!("<{op}")) {
        return false;
    }
    let mut ok = true;
    if c["filt"] == "xpath" {
        ok &= wire.contains("type=\"xpath\"");
    }
    if c["filt"] == "subtree" {
        ok &= wire.contains("type=\"subtree\"");
    }
    if c["scheme"] != "none" {
        ok &= wire.contains(&format!("<url>{}", c["scheme"].as_str().unwrap()));
    }
    if c["confirmed"] == true {
        ok &= wire.contains("<confirmed/>");
    }
    if c["timeout"] == true {
        ok &= wire.contains("<confirm-timeout>");
    }
    if c["persist"] == true {
        ok &= wire.contains("<persist>");
    }
    if c["persistid"] == true {
        ok &= wire.contains("<persist-id>");
    }
    if c["testopt"] != "none" && c["testopt"] != "test-then-set" {
        ok &= wire.contains(&format!("<test-option>{}", c["testopt"].as_str().unwrap()));
    }
    if c["erropt"] != "none" && c["erropt"] != "stop-on-error" {
        ok &= wire.contains(&format!("<error-option>{}", c["erropt"].as_str().unwrap()));
    }
    for (k, tag) in [("tgt", "target"), ("src", "source")] {
        let v = c[k].as_str().unwrap();
        if ["running", "candidate", "startup"].contains(&v) {
            ok &= wire.contains(&format!("<{tag}><{v}/>"));
        }
    }
    ok
}

fn c09(contents_path: &str, capsets_path: &str, out: &mut dyn Write) {
    let v: Value = serde_json::from_str(&std::fs::read_to_string(contents_path).unwrap()).unwrap();
    let mut all: Vec<Value> = v["contents"].as_array().unwrap().iter().map(|c| { let mut c = c.clone(); c["complete"] = json!(true); c }).collect();
    // requests built with a mandatory parameter left out: whatever the library makes of them, what goes out must be permitted
    for c in v["incomplete"].as_array().into_iter().flatten() {
        let mut c = c.clone();
        c["complete"] = json!(false);
        all.push(c);
    }
    let contents = &all;
    let capsets: Value = serde_json::from_str(&std::fs::read_to_string(capsets_path).unwrap()).unwrap();
    for (k, caps) in capsets.as_array().unwrap().iter().enumerate() {
        let caps = strs(caps);
        let hello = hello_for(&caps);
        if k % 16 == 3 {
            // what is permitted does not depend on what the server answered before: every request once more on a session
            // on which the server has just refused the same request with an rpc-error
            for tag in ["operation-not-supported", "access-denied"] {
                *REPLY_TAG.lock().unwrap() = Some(tag.to_string());
                let mut ws = WSess::with_hello(hello.clone()).expect("session");
                for (j, c) in contents.iter().enumerate() {
                    if c["op"] == "close-session" || c["op"] == "kill-session" {
                        continue;
                    }
                    let r = std::panic::catch_unwind(std::panic::AssertUnwindSafe(|| {
                        let _ = attempt(&mut ws, c);
                        attempt(&mut ws, c)
                    }));
                    let (sent, local, wire) = match r {
                        Ok(x) => x,
                        Err(_) => {
                            ws = WSess::with_hello(hello.clone()).expect("session");
                            (false, "panic".into(), String::new())
                        }
                    };
                    if wire == "skip" {
                        continue;
                    }
                    let wire_ok = !sent || wire_matches(c, &wire) || c["complete"] == false;
                    writeln!(out, "{}", json!({"ev": "c09", "case": k * 1000 + j, "capset": k, "content": j, "caps": caps, "c": c, "history": format!("after-{tag}"),
                        "sent": sent, "local": local.chars().take(120).collect::<String>(), "wire_ok": wire_ok})).unwrap();
                }
            }
            *REPLY_TAG.lock().unwrap() = None;
        }
        let mut ws = WSess::with_hello(hello.clone()).expect("session");
        for (j, c) in contents.iter().enumerate() {
            let r = std::panic::catch_unwind(std::panic::AssertUnwindSafe(|| attempt(&mut ws, c)));
            let (sent, local, wire) = match r {
                Ok(x) => x,
                Err(_) => {
                    ws = WSess::with_hello(hello.clone()).expect("session");
                    (false, "panic".into(), String::new())
                }
            };
            if wire == "skip" {
                // close-session: own session
                let ws2 = WSess::with_hello(hello.clone()).expect("session");
                let before = ws2.ctl.sent_len();
                let ctl = ws2.ctl.clone();
                let mut outer: BoxFut<_> = Box::pin(ws2.session.close());
                let okc = matches!(drive(&mut outer, 8), Driven::Ready(Ok(_)));
                let sent = ctl.sent_len() > before;
                writeln!(out, "{}", json!({"ev": "c09", "case": k * 1000 + j, "capset": k, "content": j, "caps": caps, "c": c,
                    "sent": sent, "local": if okc { "" } else { "local" }, "wire_ok": sent})).unwrap();
                continue;
            }
            let wire_ok = !sent || wire_matches(c, &wire) || c["complete"] == false;
            let mut ev = json!({"ev": "c09", "case": k * 1000 + j, "capset": k, "content": j, "caps": caps, "c": c,
                "sent": sent, "local": local.chars().take(120).collect::<String>(), "wire_ok": wire_ok});
            if sent {
                if let Some(d) = derive_content(&wire) {
                    ev["d"] = d;
                }
            }
            writeln!(out, "{ev}").unwrap();
            // the same content with the parameter-setting builder calls in the opposite order
            let nopts = ["confirmed", "timeout", "persist", "persistid"].iter().filter(|f| c[**f].as_bool().unwrap_or(false)).count();
            if c["op"] == "commit" && nopts >= 2 {
                let r = std::panic::catch_unwind(std::panic::AssertUnwindSafe(|| attempt_ordered(&mut ws, c, true)));
                let (sent, local, wire) = match r {
                    Ok(x) => x,
                    Err(_) => {
                        ws = WSess::with_hello(hello.clone()).expect("session");
                        (false, "panic".into(), String::new())
                    }
                };
                let wire_ok = !sent || wire_matches(c, &wire);
                writeln!(out, "{}", json!({"ev": "c09", "case": k * 1000 + j, "capset": k, "content": j, "caps": caps, "c": c, "order": "reversed",
                    "sent": sent, "local": local.chars().take(120).collect::<String>(), "wire_ok": wire_ok})).unwrap();
            }
        }
    }
}

// ---------------------------------------------------------------------------------------------
// C12

fn sid_text(shape: &str) -> Option<&'static str> {
    Some(match shape {
        "1" => "1",
        "max" => "4294967295",
        "zero" => "0",
        "toobig" => "4294967296",
        "negative" => "-5",
        "word" => "abc",
        "empty" => "",
        _ => return None,
    })
}

const EXTRA_CAPS: [&str; 7] = [
    // module and vendor capabilities are spelt with capitals by some (URIs are case-sensitive past the scheme and host)
    "http://cisco.com/ns/yang/Cisco-IOS-XR-ifmgr-cfg?module=Cisco-IOS-XR-ifmgr-cfg",
    "http://example.com/ns/Vendor-Feature",
    "http://example.com/ns/vendor-feature",
    "urn:ietf:params:netconf:capability:with-defaults:1.0?basic-mode=explicit&also-supported=report-all",
    "urn:ietf:params:netconf:capability:notification:1.0",
    "urn:ietf:params:xml:ns:yang:ietf-netconf-monitoring?module=ietf-netconf-monitoring&revision=2010-10-04",
    "http://xml.juniper.net/dmi/system/1.0",
];

/// "modules-N": a server that lists N YANG modules, one capability each (a hello of N x 70 bytes)
fn module_caps(c: &Value) -> Vec<String> {
    let n: usize = c["extra"].as_str().and_then(|x| x.strip_prefix("modules-")).and_then(|n| n.parse().ok()).unwrap_or(0);
    (0..n).map(|i| format!("http://example.com/yang/vendor-module-{i:05}?module=vendor-module-{i:05}")).collect()
}

/// the module capabilities of a list, replaced by one entry that stands for them (count and a checksum)
fn summarise_modules(caps: Vec<String>) -> Vec<String> {
    let (mods, mut rest): (Vec<String>, Vec<String>) = caps.into_iter().partition(|u| u.starts_with("http://example.com/yang/vendor-module-"));
    if !mods.is_empty() {
        let mut sorted = mods.clone();
        sorted.sort();
        sorted.dedup();
        let sum = sorted.iter().flat_map(|u| u.bytes()).fold(0u64, |a, b| a.wrapping_mul(1_000_003).wrapping_add(b as u64));
        rest.push(format!("vendor-modules:{}:{}:{sum:016x}", mods.len(), sorted.len()));
    }
    rest.sort();
    rest
}

fn lookalikes(c: &Value) -> Vec<&'static str> {
    match c["extra"].as_str().unwrap_or("none") {
        // the XML namespace of the protocol, which many servers list next to the capabilities
        "ns-form" => vec!["urn:ietf:params:xml:ns:netconf:base:1.0"],
        // the YANG module of the base protocol (RFC 6241 section 10)
        "yang-module" => vec!["urn:ietf:params:xml:ns:netconf:base:1.0?module=ietf-netconf&revision=2011-06-01"],
        "other-versions" => vec!["urn:ietf:params:netconf:base:1.0.1", "urn:ietf:params:netconf:base:10", "urn:ietf:params:netconf:base:2.0"],
        "capability-form" => vec!["urn:ietf:params:netconf:capability:base:1.0", "urn:ietf:params:netconf:base"],
        _ => vec![],
    }
}

fn hello_case_xml(c: &Value) -> String {
    let base = strs(&c["base"]);
    let sid = c["sid"].as_str().unwrap();
    let ns = c["ns"].as_str().unwrap();
    let shape = c["shape"].as_str().unwrap();
    let (p, decl) = if ns == "prefixed" {
        ("nc:", format!("xmlns:nc=\"{BASE_NS}\""))
    } else {
        ("", format!("xmlns=\"{BASE_NS}\""))
    };
    let decl = if shape == "wrongns" { "xmlns=\"urn:example:not-netconf\"".to_string() } else { decl };
    let p = if shape == "wrongns" { "" } else { p };
    let mut caps = String::new();
    for b in &base {
        caps.push_str(&format!("<{p}capability>urn:ietf:params:netconf:base:{b}</{p}capability>"));
    }
    caps.push_str(&format!("<{p}capability>urn:ietf:params:netconf:capability:candidate:1.0</{p}capability>"));
    caps.push_str(&format!("<{p}capability>{JUNOS_CAP}</{p}capability>"));
    // capabilities the library has no name for are still part of what the server said
    for u in EXTRA_CAPS {
        caps.push_str(&format!("<{p}capability>{}</{p}capability>", u.replace('&', "&amp;")));
    }
    // capabilities that look like a base-protocol capability and are none
    for u in lookalikes(c) {
        caps.push_str(&format!("<{p}capability>{}</{p}capability>", u.replace('&', "&amp;")));
    }
    for u in module_caps(c) {
        caps.push_str(&format!("<{p}capability>{u}</{p}capability>\n"));
    }
    let sid_el = |t: &str| format!("<{p}session-id>{t}</{p}session-id>");
    let sids = match sid {
        "missing" => String::new(),
        "dup" => format!("{}{}", sid_el("5"), sid_el("6")),
        s => sid_el(sid_text(s).unwrap_or("1")),
    };
    let capsel = if shape == "nocaps" { String::new() } else { format!("<{p}capabilities>{caps}</{p}capabilities>") };
    // an XML declaration in front (what lxml, libxml2, Java serialisers emit), comments and white space around the root
    let xmldecl = match c["decl"].as_str().unwrap_or("none") {
        "upper" => "<?xml version=\"1.0\" encoding=\"UTF-8\"?>",
        "lower" => "<?xml version='1.0' encoding='utf-8'?>\n",
        "noenc" => "<?xml version=\"1.0\"?>",
        "standalone" => "<?xml version=\"1.0\" encoding=\"Utf-8\" standalone=\"yes\" ?>\n",
        "comment" => "<!-- router banner -->\n",
        "trailing-comment" => "",
        _ => "",
    };
    let tail = if c["decl"] == "trailing-comment" { "\n<!-- end -->\n" } else { "" };
    let full = format!("{xmldecl}<{p}hello {decl}>{capsel}{sids}</{p}hello>{tail}");
    // the hello pretty-printed with every token on a line of its own, the line ends being CR LF (or bare CR)
    let full = match c["decl"].as_str().unwrap_or("none") {
        le @ ("crlf-layout" | "cr-layout") => {
            let nl = if le == "crlf-layout" { "\r\n" } else { "\r" };
            full.replace(&format!("<{p}capability>"), &format!("{nl}    <{p}capability>{nl}      "))
                .replace(&format!("</{p}capability>"), &format!("{nl}    </{p}capability>"))
                .replace(&format!("<{p}session-id>"), &format!("{nl}  <{p}session-id>{nl}    "))
                .replace(&format!("</{p}session-id>"), &format!("{nl}  </{p}session-id>{nl}"))
                .replace(&format!("<{p}capabilities>"), &format!("{nl}  <{p}capabilities>"))
                .replace(&format!("</{p}capabilities>"), &format!("{nl}  </{p}capabilities>"))
        }
        _ => full,
    };
    match shape {
        // content after the root element: not a well-formed document
        "trailing-text" => format!("{full}login: {EOM}"),
        "two-roots" => format!("{full}{full}{EOM}"),
        "trailing-reply" => format!("{full}<rpc-reply message-id=\"1\" xmlns=\"{BASE_NS}\"><ok/></rpc-reply>{EOM}"),
        "stray-end" => format!("{full}</{p}hello>{EOM}"),
        "truncated" => format!("{}{EOM}", &full[..full.len() / 2]),
        "notxml" => format!("Welcome to the router!\r\n{EOM}"),
        _ => format!("{full}{EOM}"),
    }
}

fn c12(cases_path: &str, out: &mut dyn Write) {
    use vh::memtransport::mem_transport;
    let v: Value = serde_json::from_str(&std::fs::read_to_string(cases_path).unwrap()).unwrap();
    for (k, c) in v["cases"].as_array().unwrap().iter().enumerate() {
        let hello = hello_case_xml(c);
        let order = c["order"].as_str().unwrap();
        let res = std::panic::catch_unwind(|| {
            let (t, ctl) = mem_transport();
            if order == "before" {
                ctl.push(hello.clone());
            }
            let mut est: BoxFut<Result<netconf::Session<_>, netconf::Error>> =
                Box::pin(netconf::Session::verif_with_transport(t));
            let mut r = poll_once(&mut est);
            if order == "after" {
                // this server sends its hello only once it has seen the client's (both peers must
                // send their hello without waiting for the other: RFC 6241 section 8.1)
                if ctl.sent_len() > 0 {
                    ctl.push(hello.clone());
                    if r.is_pending() {
                        r = poll_once(&mut est);
                    }
                }
            }
            let client_hello = ctl.sent().first().map(|m| String::from_utf8_lossy(m).to_string()).unwrap_or_default();
            let client_base: Vec<&str> = ["1.0", "1.1"]
                .into_iter()
                .filter(|b| client_hello.contains(&format!("urn:ietf:params:netconf:base:{b}<")))
                .collect();
            let mut hello_caps: Vec<String> = strs(&c["base"])
                .iter()
                .map(|b| format!("urn:ietf:params:netconf:base:{b}"))
                .collect();
            hello_caps.push("urn:ietf:params:netconf:capability:candidate:1.0".into());
            hello_caps.push(JUNOS_CAP.into());
            hello_caps.extend(EXTRA_CAPS.iter().map(|u| u.to_string()));
            hello_caps.extend(lookalikes(c).iter().map(|u| u.to_string()));
            hello_caps.extend(module_caps(c));
            let hello_caps = summarise_modules(hello_caps);
            let mut ev = json!({"ev": "c12", "case": k, "c": c, "client_base": client_base, "hello_caps": hello_caps,
                                "client_hello_framing": if client_hello.ends_with(EOM) { "eom" } else { "other" }});
            match r {
                std::task::Poll::Pending => {
                    ev["established"] = json!("hang");
                }
                std::task::Poll::Ready(Err(e)) => {
                    ev["established"] = json!("no");
                    ev["err"] = json!(err_class(&e));
                }
                std::task::Poll::Ready(Ok(mut session)) => {
                    ev["established"] = json!("yes");
                    let ctx = session.context();
                    ev["version"] = json!(format!("{}", ctx.protocol_version()).trim_start_matches(":base:"));
                    ev["sid"] = json!(format!("{}", ctx.session_id()));
                    let caps: Vec<String> = ctx.server_capabilities().iter().map(|c| c.uri().to_string()).collect();
                    let caps = summarise_modules(caps);
                    ev["caps"] = json!(caps);
                    // the same list with XML escaping undone (decides which of two rules a difference falls under)
                    let mut un: Vec<String> = caps.iter().map(|c| c.replace("&amp;", "&")).collect();
                    un.sort();
                    ev["caps_unescaped"] = json!(un);
                    // framing of the first request after the hello exchange
                    let before = ctl.sent_len();
                    let mut outer: LBoxFut<'_, _> = Box::pin(session.rpc::<Get, _>(|b| b.filter(None).finish()));
                    let _ = drive(&mut outer, 8);
                    drop(outer);
                    if ctl.sent_len() > before {
                        let m = String::from_utf8_lossy(&ctl.sent()[before]).to_string();
                        ev["framing"] = json!(if m.starts_with("\n#") && m.ends_with("\n##\n") {
                            "chunked"
                        } else if m.ends_with(EOM) {
                            "eom"
                        } else {
                            "other"
                        });
                    } else {
                        ev["framing"] = json!("nothing-sent");
                    }
                }
            }
            ev
        });
        let ev = res.unwrap_or_else(|_| json!({"ev": "c12", "case": k, "c": c, "established": "panic", "client_base": []}));
        writeln!(out, "{ev}").unwrap();
    }
}


// ---------------------------------------------------------------------------------------------
// C13: XML-equivalent serialisations

use vh::xmlgen::{self, el, el_ns, tok, txt, with_attrs, Node, Style, FLAGS};

fn err_node(k: usize, severity: &str) -> Node {
    el(
        "rpc-error",
        vec![
            tok("error-type", ERR_TYPES[k % 4]),
            tok("error-tag", ERR_TAGS[k % 8]),
            tok("error-severity", severity),
            txt("error-path", "/a/b"),
            txt("error-message", &format!("m{k}")),
            el("error-info", vec![txt("bad-element", "route-filter")]),
        ],
    )
}

const JUNOS_NS: &str = "http://xml.juniper.net/junos/20.4R3/junos";

/// an <rpc-error> with a vendor element between the standard ones, and vendor content inside <error-info>
fn err_node_ext(k: usize, severity: &str) -> Node {
    el(
        "rpc-error",
        vec![
            tok("error-type", ERR_TYPES[k % 4]),
            tok("error-tag", ERR_TAGS[k % 8]),
            tok("error-severity", severity),
            el_ns(JUNOS_NS, "source-daemon", vec![Node::Text("mgd".into())]),
            txt("error-path", "/a/b"),
            txt("error-message", &format!("m{k}")),
            el("error-info", vec![txt("bad-element", "route-filter"), el_ns(JUNOS_NS, "line-number", vec![Node::Text("12".into())])]),
        ],
    )
}

fn templates() -> Vec<(&'static str, &'static str, Node)> {
    let reply = |kids: Vec<Node>| with_attrs(el("rpc-reply", kids), &[("message-id", "@ID@"), ("other", "x")]);
    vec![
        (
            "hello",
            "hello",
            el(
                "hello",
                vec![
                    el(
                        "capabilities",
                        vec![
                            tok("capability", "urn:ietf:params:netconf:base:1.0"),
                            tok("capability", "urn:ietf:params:netconf:capability:candidate:1.0"),
                            tok("capability", "urn:ietf:params:netconf:capability:url:1.0?scheme=http,ftp,file"),
                            tok("capability", JUNOS_CAP),
                        ],
                    ),
                    tok("session-id", "4711"),
                ],
            ),
        ),
        ("reply-ok", "lock", reply(vec![el("ok", vec![])])),
        ("reply-errors", "lock", reply(vec![err_node(1, "error"), err_node(2, "warning")])),
        // servers extend <rpc-error> with elements of their own (Junos: <source-daemon>); whatever the library makes of
        // them, it must not depend on whether the foreign namespace is declared as a prefix or as a default namespace
        ("reply-errors-ext", "lock", reply(vec![err_node_ext(1, "error"), err_node_ext(2, "error")])),
        ("reply-bare-error", "open-configuration", reply(vec![err_node(1, "error")])),
        // text outside ASCII everywhere (descriptions, messages): multi-byte characters next to whatever goes wrong
        (
            "reply-nonascii",
            "lock",
            reply(vec![el(
                "rpc-error",
                vec![
                    tok("error-type", "application"),
                    tok("error-tag", "operation-failed"),
                    tok("error-severity", "error"),
                    txt("error-path", "/configuration/interfaces/interface[name='\u{e4}\u{f6}\u{fc}-\u{6f22}\u{5b57}']"),
                    txt("error-message", "\u{e9}\u{e8}\u{ea} l\u{2019}interface \u{6f22}\u{5b57}\u{6f22}\u{5b57} n\u{2019}existe pas \u{1f600}\u{1f600} \u{e4}\u{f6}\u{fc}\u{df}"),
                    el("error-info", vec![txt("bad-element", "\u{e4}\u{f6}\u{fc}\u{6f22}\u{5b57}\u{e9}\u{1f600}")]),
                ],
            )]),
        ),
        ("reply-data-nonascii", "get", reply(vec![el("data", vec![el_ns("urn:example", "description", vec![Node::Text("\u{e4}\u{f6}\u{fc} \u{6f22}\u{5b57}\u{6f22}\u{5b57} \u{e9}t\u{e9} \u{1f600} \u{e4}\u{f6}\u{fc}\u{df}\u{e4}\u{f6}\u{fc}\u{df}\u{e4}\u{f6}\u{fc}\u{df}".into())])])])),
        ("reply-bare-error-ext", "close-configuration", reply(vec![err_node_ext(1, "error")])),
        ("reply-data", "get", reply(vec![el("data", vec![el_ns("urn:example", "top", vec![el_ns("urn:example", "a", vec![Node::Text("1".into())])])])])),
        ("reply-data-empty", "get", reply(vec![el("data", vec![])])),
        ("reply-bare", "open-configuration", reply(vec![])),
        ("load-ok", "load-configuration", reply(vec![el("load-configuration-results", vec![el("ok", vec![])])])),
        (
            "load-errors",
            "load-configuration",
            reply(vec![el("load-configuration-results", vec![err_node(1, "error"), tok("load-error-count", "1")])]),
        ),
        // results that say nothing but "no errors counted": neither a positive indication nor an error
        ("load-count-only", "load-configuration", reply(vec![el("load-configuration-results", vec![tok("load-error-count", "0")])])),
        ("load-warning-ok", "load-configuration", reply(vec![el("load-configuration-results", vec![err_node(1, "warning"), el("ok", vec![])])])),
    ]
}

/// The data of a <get> reply is handed out as a raw XML fragment; compare it by its XML
/// information (element names, attributes sorted, text trimmed, comments dropped).
fn canonical_fragment(raw: &str) -> String {
    fn canon(e: &xmlgen::PElem, out: &mut String) {
        let local = e.name.rsplit(':').next().unwrap_or(&e.name).to_string();
        let mut attrs: Vec<(String, String)> = e.attrs.iter().filter(|(k, _)| !k.starts_with("xmlns")).cloned().collect();
        attrs.sort();
        out.push_str(&format!("<{local}{:?}>", attrs));
        for k in &e.kids {
            match k {
                xmlgen::PNode::Elem(c) => canon(c, out),
                xmlgen::PNode::Text(t) => out.push_str(t.trim()),
            }
        }
        out.push_str("</>");
    }
    match xmlgen::parse_document(&format!("<w>{raw}</w>")) {
        Ok(root) => {
            let mut s = String::new();
            canon(&root, &mut s);
            s
        }
        Err(_) => format!("raw:{}", raw.split_whitespace().collect::<String>()),
    }
}

/// digest of what the library made of one serialisation
fn c13_digest(op: &str, doc: &str) -> String {
    if op == "hello" {
        return match WSess::with_hello(doc.to_string()) {
            Err(e) => format!("err:{}", err_class(&e)),
            Ok(ws) => {
                let ctx = ws.session.context();
                let mut caps: Vec<String> = ctx.server_capabilities().iter().map(|c| format!("{c:?}")).collect();
                caps.sort();
                format!("ok sid={} ver={} caps={}", ctx.session_id(), ctx.protocol_version(), caps.join(","))
            }
        };
    }
    let mut ws = WSess::with_caps(ALL_CAPS);
    let doc = doc.to_string();
    let reply = move |id: u64| Some(doc.replace("@ID@", &id.to_string()));
    macro_rules! go {
        ($ty:ty, $build:expr, $fmt:expr) => {{
            let (_sent, r) = call_rpc!(ws, $ty, $build, reply);
            match r {
                Err(why) => format!("harness:{why}"),
                Ok(Ok(v)) => format!("ok {}", $fmt(v)),
                Ok(Err(netconf::Error::RpcError(errs))) => format!("rpcerror {}", errs.iter().map(|e| format!("{e:?}")).collect::<Vec<_>>().join("|")),
                Ok(Err(e)) => format!("err:{}", err_class(&e)),
            }
        }};
    }
    match op {
        "lock" => go!(Lock, |b| b.target(Datastore::Running)?.finish(), |_v: ()| String::new()),
        "get" => go!(Get, |b| b.filter(None).finish(), |v: Opaque| canonical_fragment(&v.to_string())),
        "open-configuration" => go!(OpenConfiguration, |b| b.ephemeral(Some("inst")).finish(), |_v: ()| String::new()),
        "close-configuration" => go!(CloseConfiguration, |b| b.finish(), |_v: ()| String::new()),
        "load-configuration" => go!(
            LoadConfiguration<_>,
            |b| b.source(Config::new(Raw("<configuration/>".into()), Xml, Merge)).finish(),
            |_v: ()| String::new()
        ),
        _ => "unknown".into(),
    }
}

fn c13(cases_path: &str, out: &mut dyn Write) {
    // cases: {"cases": [[flag,...], ...]} (subsets of rewrites, enumerated by TLC)
    let v: Value = serde_json::from_str(&std::fs::read_to_string(cases_path).unwrap()).unwrap();
    let subsets: Vec<Vec<String>> = v["cases"].as_array().unwrap().iter().map(strs).collect();
    for (name, op, tree) in templates() {
        let digest = |flags: &[String]| -> String {
            let doc = xmlgen::render(&tree, &Style::from_flags(flags));
            std::panic::catch_unwind(|| c13_digest(op, &doc)).unwrap_or_else(|_| "panic".into())
        };
        let base = digest(&[]);
        let singles: Vec<(String, bool)> = FLAGS.iter().map(|f| (f.to_string(), digest(&[f.to_string()]) != base)).collect();
        for (k, flags) in subsets.iter().enumerate() {
            let d = digest(flags);
            let single_fail: Vec<String> = singles.iter().filter(|(f, bad)| *bad && flags.contains(f)).map(|(f, _)| f.clone()).collect();
            writeln!(
                out,
                "{}",
                json!({"ev": "c13", "case": k, "tmpl": name, "op": op, "flags": flags, "digest": d, "base": base, "single_fail": single_fail,
                       "doc": xmlgen::render(&tree, &Style::from_flags(flags)).chars().take(400).collect::<String>()})
            )
            .unwrap();
        }
    }
}

// ---------------------------------------------------------------------------------------------
// C10: serialised requests are well-formed and carry the caller's values unchanged

/// a value of a few hundred kilobytes whose multi-byte characters sit at every alignment: whatever size the
/// library cuts, copies or escapes by, some boundary falls inside a character
fn big_nonascii() -> String {
    let mut s = String::from("a");
    while s.len() < 230_000 {
        s.push_str("\u{e9}\u{20ac}\u{1f600}z\u{6f22}");
    }
    s
}

/// long values are compared by length and checksum (the trace stays small)
fn brief(v: &str) -> String {
    if v.len() <= 4096 {
        return v.to_string();
    }
    let mut h: u64 = 0xcbf29ce484222325;
    for b in v.bytes() {
        h = (h ^ b as u64).wrapping_mul(0x100000001b3);
    }
    format!("{} bytes, fnv1a {h:016x}, starts {:?}", v.len(), v.chars().take(12).collect::<String>())
}

fn class_text(c: &str) -> &'static str {
    match c {
        "plain" => "ab1",
        "lt" => "<",
        "gt" => ">",
        "amp" => "&",
        "quot" => "\"",
        "apos" => "'",
        "delim" => "]]>]]>",
        "nonascii" => "\u{e9}\u{6f22}",
        "space" => " x ",
        // text that a "normaliser" would rewrite: dot segments, percent-encoded unreserved characters and
        // lower-case hex digits, upper-case letters (in a URL: scheme, host), a backslash, a control character
        "dotseg" => "a/../b/./c",
        "pctenc" => "%7Euser%2fx",
        "upcase" => "AbC",
        "bslash" => "d\\e",
        "tab" => "f\tg",
        _ => "",
    }
}

fn c10(cases_path: &str, out: &mut dyn Write) {
    use netconf::message::rpc::operation::junos::load_configuration::{Json, Set, Text};
    let v: Value = serde_json::from_str(&std::fs::read_to_string(cases_path).unwrap()).unwrap();
    for (k, c) in v["cases"].as_array().unwrap().iter().enumerate() {
        let param = c["param"].as_str().unwrap().to_string();
        let classes = strs(&c["classes"]);
        let value: String = classes.iter().map(|c| if c == "big-nonascii" { big_nonascii() } else { class_text(c).to_string() }).collect();
        let r = std::panic::catch_unwind(|| {
            let mut ws = WSess::with_caps(ALL_CAPS);
            let before = ws.ctl.sent_len();
            let noreply = |_id: u64| -> Option<String> { None };
            let val = value.clone();
            macro_rules! go {
                ($ty:ty, $build:expr) => {{
                    let (sent, r) = call_rpc!(ws, $ty, $build, noreply);
                    (sent, match r { Err(why) => why, _ => String::new() })
                }};
            }
            // (element or attribute to read the value back from, is the value an XML fragment?)
            let (sent, local, locate, fragment): (bool, String, &str, bool) = match param.as_str() {
                "persist" => { let (s, l) = go!(Commit, move |b| b.confirmed(true)?.persist(Some(Token::new(&val)))?.finish()); (s, l, "persist", false) }
                "persist-id" => { let (s, l) = go!(Commit, move |b| b.persist_id(Some(Token::new(&val)))?.finish()); (s, l, "persist-id", false) }
                // every parameter of the request at once: a follow-up confirmed commit that renews the token - each value
                // that goes out is the one that was given (if the library refuses the combination, nothing goes out)
                "persist-id-with-persist" => { let (s, l) = go!(Commit, move |b| b.confirmed(true)?.persist(Some(Token::new("the-new-token")))?.persist_id(Some(Token::new(&val)))?.finish()); (s, l, "persist-id", false) }
                "persist-with-persist-id" => { let (s, l) = go!(Commit, move |b| b.confirmed(true)?.persist_id(Some(Token::new("the-pending-token")))?.persist(Some(Token::new(&val)))?.finish()); (s, l, "persist", false) }
                "cancel-persist-id" => { let (s, l) = go!(CancelCommit, move |b| b.persist_id(Some(Token::new(&val)))?.finish()); (s, l, "persist-id", false) }
                "log" => { let (s, l) = go!(CommitConfiguration, move |b| b.with_log_message(&val).finish()); (s, l, "log", false) }
                "log-after-failed-write" => {
                    // a request whose payload cannot be serialised must leave nothing behind for the next one
                    let (s0, _l0) = go!(EditConfig<FailingRaw>, |b| b.target(Datastore::Candidate)?.config(FailingRaw).finish());
                    if s0 {
                        (true, "failed request was sent".to_string(), "log", false)
                    } else {
                        let (s, l) = go!(CommitConfiguration, move |b| b.with_log_message(&val).finish());
                        (s, l, "log", false)
                    }
                }
                "instance" => { let (s, l) = go!(OpenConfiguration, move |b| b.ephemeral(Some(&val)).finish()); (s, l, "ephemeral-instance", false) }
                "xpath" => { let (s, l) = go!(GetConfig<Opaque>, move |b| b.source(Datastore::Running)?.filter(Some(Filter::XPath(val)))?.finish()); (s, l, "@select", false) }
                "xpath-get" => { let (s, l) = go!(Get, move |b| b.filter(Some(Filter::XPath(val))).finish()); (s, l, "@select", false) }
                "url-edit" => { let (s, l) = go!(EditConfig<Raw>, move |b| b.target(Datastore::Candidate)?.url(format!("file:///cfg/{val}?a=1&b={val}"))?.finish()); (s, l, "url", false) }
                "url-delete" => { let (s, l) = go!(DeleteConfig, move |b| b.url(format!("http://h.example/p/{val}?x={val}&y=2"))?.finish()); (s, l, "url", false) }
                "url-host" => { let (s, l) = go!(DeleteConfig, move |b| b.url(format!("http://{val}.Example.COM/Cfg/{val}"))?.finish()); (s, l, "url", false) }
                "text-config" => { let (s, l) = go!(LoadConfiguration<_>, move |b| b.source(Config::new(val, Text, Merge)).finish()); (s, l, "configuration-text", false) }
                "json-config" => { let (s, l) = go!(LoadConfiguration<_>, move |b| b.source(Config::new(val, Json, Merge)).finish()); (s, l, "configuration-json", false) }
                "set-config" => { let (s, l) = go!(LoadConfiguration<_>, move |b| b.source(Config::new(val, Text, Set)).finish()); (s, l, "configuration-set", false) }
                "subtree-filter" => { let f = format!("<top k=\"{}\">{}</top>", xml_escape(&val), xml_escape(&val)); let (s, l) = go!(Get, move |b| b.filter(Some(Filter::Subtree(f))).finish()); (s, l, "top", true) }
                "edit-fragment" => { let f = format!("<top k=\"{}\">{}</top>", xml_escape(&val), xml_escape(&val)); let (s, l) = go!(EditConfig<Raw>, move |b| b.target(Datastore::Candidate)?.config(Raw(f)).finish()); (s, l, "top", true) }
                "edit-opaque" => { let f = format!("<top k=\"{}\">{}</top>", xml_escape(&val), xml_escape(&val)); let (s, l) = go!(EditConfig<Opaque>, move |b| b.target(Datastore::Candidate)?.config(Opaque::from(f)).finish()); (s, l, "top", true) }
                "load-opaque" => { let f = format!("<configuration><top k=\"{}\">{}</top></configuration>", xml_escape(&val), xml_escape(&val)); let (s, l) = go!(LoadConfiguration<_>, move |b| b.source(Config::new(Opaque::from(f), Xml, Merge)).finish()); (s, l, "top", true) }
                "copy-fragment" => { let f = format!("<top k=\"{}\">{}</top>", xml_escape(&val), xml_escape(&val)); let (s, l) = go!(CopyConfig, move |b| b.target(Datastore::Candidate)?.config(f).finish()); (s, l, "top", true) }
                _ => (false, "local:unknown-param".into(), "", false),
            };
            let mut ev = json!({"sent": sent, "local": local.chars().take(100).collect::<String>()});
            if sent {
                let _ = before;
                let wire = String::from_utf8_lossy(ws.ctl.sent().last().unwrap()).to_string();
                let ndelim = wire.matches(EOM).count();
                ev["delims"] = json!(ndelim);
                ev["delim_at_end"] = json!(wire.ends_with(EOM));
                let body = wire.strip_suffix(EOM).unwrap_or(&wire);
                match xmlgen::parse_document(body) {
                    Err(why) => {
                        ev["wellformed"] = json!(false);
                        ev["why"] = json!(why);
                        ev["recovered"] = json!("");
                    }
                    Ok(root) => {
                        ev["wellformed"] = json!(true);
                        let rec = if let Some(attr) = locate.strip_prefix('@') {
                            root.find("filter").and_then(|f| f.attr(attr)).map(String::from)
                        } else {
                            root.find(locate).map(|e| if fragment { format!("{}|{}", e.attr("k").unwrap_or("?"), e.text()) } else { e.text() })
                        };
                        ev["recovered"] = json!(brief(&rec.unwrap_or_else(|| "<not found>".into())));
                    }
                }
                ev["wire"] = json!(wire.chars().take(300).collect::<String>());
            }
            let expect = match param.as_str() {
                "url-edit" => format!("file:///cfg/{value}?a=1&b={value}"),
                "url-delete" => format!("http://h.example/p/{value}?x={value}&y=2"),
                "url-host" => format!("http://{value}.Example.COM/Cfg/{value}"),
                "subtree-filter" | "edit-fragment" | "copy-fragment" | "edit-opaque" | "load-opaque" => format!("{value}|{value}"),
                _ => value.clone(),
            };
            ev["expected"] = json!(brief(&expect));
            ev
        });
        let mut ev = r.unwrap_or_else(|_| json!({"sent": false, "local": "panic"}));
        ev["ev"] = json!("c10");
        ev["case"] = json!(k);
        ev["param"] = json!(param);
        ev["classes"] = json!(classes);
        writeln!(out, "{ev}").unwrap();
    }
}

// ---------------------------------------------------------------------------------------------
// C14: arbitrary bytes from the server

fn mutate(base: &[u8], op: &str, p: usize, q: usize, seed: u64) -> Vec<u8> {
    let n = base.len();
    let at = |k: usize| (n * k.min(8)) / 8;
    let mut v = base.to_vec();
    match op {
        "none" => {}
        "trunc" => v.truncate(at(p)),
        "splice" => {
            let (a, b) = (at(p.min(q)), at(p.max(q)));
            let slice = base[a..b].to_vec();
            v.splice(b..b, slice);
        }
        "flip20" | "flip80" | "flip01" => {
            let i = at(p).min(n.saturating_sub(1));
            if n > 0 {
                v[i] ^= match op { "flip20" => 0x20, "flip80" => 0x80, _ => 0x01 };
            }
        }
        "badutf8" => {
            let i = at(p);
            v.splice(i..i, [0xff, 0xfe, 0xc3]);
        }
        "dupelem" => {
            // duplicate the first child element of the root
            let s = String::from_utf8_lossy(base).to_string();
            if let Some(gt) = s.find('>') {
                let rest = &s[gt + 1..];
                if let Some(end) = rest.find("/>").map(|e| e + 2).or_else(|| rest.find("</").and_then(|c| rest[c..].find('>').map(|g| c + g + 1))) {
                    let child = rest[..end].to_string();
                    v = format!("{}{}{}", &s[..gt + 1], child, rest).into_bytes();
                }
            }
        }
        "hugeint" => {
            let s = String::from_utf8_lossy(base).to_string();
            let huge = "9".repeat(40);
            let s = s.replace("@ID@", &huge).replace(">4711<", &format!(">{huge}<")).replace(">1</load-error-count>", &format!(">{huge}</load-error-count>"));
            v = s.into_bytes();
        }
        "wrongns" => v = String::from_utf8_lossy(base).replace(BASE_NS, "urn:example:other").into_bytes(),
        "deep" => {
            let s = String::from_utf8_lossy(base).to_string();
            if let Some(gt) = s.find('>') {
                let depth = 3000;
                v = format!("{}{}{}{}", &s[..gt + 1], "<a>".repeat(depth), "</a>".repeat(depth), &s[gt + 1..]).into_bytes();
            }
        }
        "big" => {
            let s = String::from_utf8_lossy(base).to_string();
            if let Some(gt) = s.find('>') {
                v = format!("{}<!--{}-->{}", &s[..gt + 1], "x".repeat(2_000_000), &s[gt + 1..]).into_bytes();
            }
        }
        "query" => {
            // replace the query part of the p-th token that has one (capability URIs with parameters)
            let s = String::from_utf8_lossy(base).to_string();
            let vals = ["?", "?x", "?a=b", "?scheme", "?scheme=", "?=", "?&", "?scheme=&x=", "", "?scheme=a&scheme=b", "?\u{fc}=1"];
            let marks: Vec<usize> = s.match_indices('?').map(|(i, _)| i).filter(|i| *i > 0 && s[..*i].rfind('>') > s[..*i].rfind('<')).collect();
            if let Some(&at) = marks.get(p % marks.len().max(1)) {
                let end = s[at..].find('<').map(|e| at + e).unwrap_or(s.len());
                v = format!("{}{}{}", &s[..at], vals[q % vals.len()], &s[end..]).into_bytes();
            }
        }
        "leaftext" => {
            // replace the text of the p-th text-only element by an odd value
            let s = String::from_utf8_lossy(base).to_string();
            // (8..11: numbers that parse and are absurd; 12..: unknown values longer than any excerpt, with characters of
            // two, three and four bytes straddling every offset around 48 and 64)
            let straddle: Vec<String> = [45usize, 46, 47, 48, 61, 62, 63].iter().map(|n| format!("{}\u{6f22}\u{5b57}\u{3b5}\u{3bb}\u{1d11e}\u{6f22}\u{5b57}\u{3b5}\u{3bb}\u{1d11e}", "a".repeat(*n))).collect();
            let mut vals: Vec<&str> = vec!["", "[edit interfaces ge-0/0/0]", "-1", "99999999999999999999999999999999999999", " ", "\u{fc}n\u{ef}", "a/b", "0",
                                           "18446744073709551615", "9223372036854775808", "4294967296", "5"];
            vals.extend(straddle.iter().map(|x| x.as_str()));
            let mut k = 0usize;
            let mut i = 0usize;
            let b = s.as_bytes();
            let mut done = false;
            let mut outs = String::new();
            while i < b.len() {
                if b[i] == b'>' && !done {
                    // text node = up to next '<', non-empty, and the next tag is an end tag
                    if let Some(lt) = s[i + 1..].find('<') {
                        let text = &s[i + 1..i + 1 + lt];
                        if !text.is_empty() && s[i + 1 + lt..].starts_with("</") {
                            if k == p {
                                outs.push('>');
                                outs.push_str(vals[q % vals.len()]);
                                i += 1 + lt;
                                done = true;
                                continue;
                            }
                            k += 1;
                        }
                    }
                }
                outs.push(b[i] as char);
                i += 1;
            }
            v = if s.is_ascii() { outs.into_bytes() } else { s.into_bytes() };
        }
        // one byte position (p * 64 + q): cut there, or make that byte invalid UTF-8
        "trunc@" => v.truncate((p * 64 + q).min(n)),
        "bad@" => {
            let i = (p * 64 + q).min(n.saturating_sub(1));
            if n > 0 {
                v[i] = 0xff;
            }
        }
        // deep nesting where the grammar has room for arbitrary content: inside <error-info>, inside <data>, inside an
        // extension element of <rpc-error>, in a foreign namespace (p selects the place, q the depth class)
        "deepat" => {
            let s = String::from_utf8_lossy(base).to_string();
            let depth = [300usize, 3000, 100_000][q % 3];
            let (open, close) = ("<x:a xmlns:x=\"urn:example:vendor\">".to_string() + &"<x:a>".repeat(depth - 1), "</x:a>".repeat(depth));
            let place = ["<error-info>", "<data>", "<rpc-error>", "<load-configuration-results>", "<capabilities>"][p % 5];
            if let Some(at) = s.find(place) {
                let at = at + place.len();
                v = format!("{}{}{}{}", &s[..at], open, close, &s[at..]).into_bytes();
            }
        }
        "empty" => v.clear(),
        "random" => {
            let mut r = rand::rngs::StdRng::seed_from_u64(seed);
            let len = r.gen_range(0..300);
            v = (0..len).map(|_| if r.gen_range(0..4) == 0 { b"<>/\"= ]&"[r.gen_range(0..8)] } else { r.gen::<u8>() }).collect();
        }
        _ => {}
    }
    // remove accidental delimiters inside, then terminate the message
    let mut out = Vec::new();
    let mut i = 0;
    while i < v.len() {
        if v[i..].starts_with(EOM.as_bytes()) {
            i += EOM.len();
        } else {
            out.push(v[i]);
            i += 1;
        }
    }
    out.extend_from_slice(EOM.as_bytes());
    out
}

/// the message-id a lenient reader would attribute the (possibly broken) reply to
fn lenient_id(msg: &[u8]) -> Option<u64> {
    let s = String::from_utf8_lossy(msg);
    let k = s.find("message-id=")?;
    let rest = &s[k + 11..];
    let q = rest.chars().next()?;
    if q != '"' && q != '\'' {
        return None;
    }
    let end = rest[1..].find(q)?;
    rest[1..1 + end].trim().parse().ok()
}

/// Can the reply be attributed from its header alone?  The whole message is valid UTF-8 and starts
/// (after an XML declaration / comments) with a well-formed start tag of an element named rpc-reply
/// in the NETCONF base namespace that carries a numeric message-id.  This is what the library's own
/// first parse phase needs; whatever follows the start tag does not matter for attribution.
fn strict_header_id(msg: &[u8]) -> Option<u64> {
    let s = std::str::from_utf8(msg).ok()?;
    let mut rest = s.trim_start();
    loop {
        if rest.starts_with("<?") {
            rest = rest[rest.find("?>")? + 2..].trim_start();
        } else if rest.starts_with("<!--") {
            rest = rest[rest.find("-->")? + 3..].trim_start();
        } else {
            break;
        }
    }
    let gt = rest.find('>')?;
    let tag = &rest[..=gt];
    // let the strict parser read the start tag by closing it artificially
    let closed = if tag.ends_with("/>") { tag.to_string() } else {
        let name_end = tag[1..].find(|c: char| c.is_whitespace() || c == '>' || c == '/')? + 1;
        format!("{}</{}>", tag, &tag[1..name_end])
    };
    let e = xmlgen::parse_document(&closed).ok()?;
    let (prefix, local) = match e.name.split_once(':') {
        Some((p, l)) => (Some(p.to_string()), l.to_string()),
        None => (None, e.name.clone()),
    };
    if local != "rpc-reply" {
        return None;
    }
    let ns_attr = match &prefix { Some(p) => format!("xmlns:{p}"), None => "xmlns".to_string() };
    if e.attr(&ns_attr) != Some(BASE_NS) {
        return None;
    }
    e.attr("message-id")?.parse().ok()
}

fn c14(cases_path: &str, from: usize, out: &mut dyn Write) {
    use rand::SeedableRng as _;
    let v: Value = serde_json::from_str(&std::fs::read_to_string(cases_path).unwrap()).unwrap();
    let tmpls = templates();
    // the code under test may block the very thread that polls it (a lock taken twice): no in-process time-out can
    // fire then.  A watchdog thread ends the process; the case without an output line is the one that hung.
    static CASE_STARTED: std::sync::atomic::AtomicU64 = std::sync::atomic::AtomicU64::new(0);
    static CASE_NO: std::sync::atomic::AtomicU64 = std::sync::atomic::AtomicU64::new(0);
    let now_s = || std::time::SystemTime::now().duration_since(std::time::UNIX_EPOCH).map(|d| d.as_secs()).unwrap_or(0);
    std::thread::spawn(move || loop {
        std::thread::sleep(std::time::Duration::from_secs(2));
        let t = CASE_STARTED.load(std::sync::atomic::Ordering::SeqCst);
        let now = std::time::SystemTime::now().duration_since(std::time::UNIX_EPOCH).map(|d| d.as_secs()).unwrap_or(0);
        if t != 0 && now > t + 30 {
            eprintln!("WATCHDOG: case {} did not come back within 30 s - the thread polling the session is blocked", CASE_NO.load(std::sync::atomic::Ordering::SeqCst));
            std::process::exit(97);
        }
    });
    for (k, c) in v["cases"].as_array().unwrap().iter().enumerate() {
        if k < from {
            continue;
        }
        CASE_NO.store(k as u64, std::sync::atomic::Ordering::SeqCst);
        CASE_STARTED.store(now_s(), std::sync::atomic::Ordering::SeqCst);
        let tname = c["tmpl"].as_str().unwrap_or("");
        let Some((_, op, tree)) = tmpls.iter().find(|(n, _, _)| *n == tname) else { continue };
        let base = xmlgen::render(tree, &Style::default());
        let base0 = base.strip_suffix(EOM).unwrap_or(&base).to_string();
        // the damaged message is made once the message-id of the request it answers is known (the ids are the
        // library's business); for a hello there is none
        let make = |id2: &str| -> Vec<u8> {
            // a well-formed reply that names a request nobody made: far beyond the last id, zero, the largest number
            // the id type holds, one below the first id
            let stray = match c["op"].as_str().unwrap_or("") {
                "strayid-far" => Some((id2.parse::<u64>().unwrap_or(2) + 1000).to_string()),
                "strayid-next" => Some((id2.parse::<u64>().unwrap_or(2) + 2).to_string()),
                "strayid-zero" => Some("0".to_string()),
                "strayid-max" => Some(u64::MAX.to_string()),
                _ => None,
            };
            let base = base0.replace("@ID@", if c["op"] == "hugeint" { "@ID@" } else { stray.as_deref().unwrap_or(id2) });
            mutate(base.as_bytes(), if stray.is_some() { "none" } else { c["op"].as_str().unwrap_or("none") }, c["p"].as_u64().unwrap_or(0) as usize,
                   c["q"].as_u64().unwrap_or(0) as usize, c["seed"].as_u64().unwrap_or(k as u64))
        };
        let mut ev = json!({"ev": "c14", "case": k, "c": c});
        let op = *op;
        let r = std::panic::catch_unwind(std::panic::AssertUnwindSafe(|| {
            if op == "hello" {
                let g = make("2");
                let (t, ctl) = vh::memtransport::mem_transport();
                ctl.push(g.clone());
                let mut est: BoxFut<Result<netconf::Session<_>, netconf::Error>> = Box::pin(netconf::Session::verif_with_transport(t));
                return match drive(&mut est, 8) {
                    Driven::Ready(Ok(_)) => json!({"hello": "ok", "gid": -1, "glen": g.len()}),
                    Driven::Ready(Err(e)) => json!({"hello": "err", "err": err_class(&e), "gid": -1, "glen": g.len()}),
                    Driven::Hung => json!({"hello": "hang", "gid": -1, "glen": g.len()}),
                };
            }
            let mut ws = WSess::with_caps(ALL_CAPS);
            // three requests outstanding: 1 and 3 are <lock>, 2 is the operation whose reply is garbage
            let mut futs: Vec<Option<BoxFut<Result<(), netconf::Error>>>> = Vec::new();
            for i in 1..=3 {
                macro_rules! send {
                    ($ty:ty, $build:expr) => {{
                        let mut outer: LBoxFut<'_, _> = Box::pin(ws.session.rpc::<$ty, _>($build));
                        let r = match drive(&mut outer, 8) { Driven::Ready(r) => r.ok(), Driven::Hung => None };
                        drop(outer);
                        r.map(|f| -> BoxFut<Result<(), netconf::Error>> { Box::pin(async move { f.await.map(|_| ()) }) })
                    }};
                }
                let f = if i != 2 {
                    send!(Lock, |b| b.target(Datastore::Running)?.finish())
                } else {
                    match op {
                        "get" => send!(Get, |b| b.filter(None).finish()),
                        "open-configuration" => send!(OpenConfiguration, |b| b.ephemeral(Some("inst")).finish()),
                        "load-configuration" => send!(LoadConfiguration<_>, |b| b.source(Config::new(Raw("<configuration/>".into()), Xml, Merge)).finish()),
                        _ => send!(Lock, |b| b.target(Datastore::Candidate)?.finish()),
                    }
                };
                futs.push(f);
            }
            // the message-ids the three requests went out with
            let ids: Vec<u64> = ws.ctl.sent().iter().skip(1).filter_map(|m| message_id_of(m)).collect();
            let (id1, id2, id3) = (ids.first().copied().unwrap_or(1), ids.get(1).copied().unwrap_or(2), ids.get(2).copied().unwrap_or(3));
            let g = make(&id2.to_string());
            // gid in the events: 1 / 2 / 3 = the header names that request, -1 = no readable header, 900 = another id
            let gid: i64 = match strict_header_id(&g) {
                None => -1,
                Some(x) if x == id2 => 2,
                Some(x) if x == id1 => 1,
                Some(x) if x == id3 => 3,
                Some(_) => 900,
            };
            let _ = lenient_id(&g);
            ws.ctl.push(g.clone());
            ws.ctl.push(reply_msg(id1, "<ok/>"));
            ws.ctl.push(reply_msg(id3, "<ok/>"));
            let mut res: Vec<String> = vec!["pending".into(); 3];
            let mut round = |futs: &mut Vec<Option<BoxFut<Result<(), netconf::Error>>>>, res: &mut Vec<String>| {
                for i in 0..3 {
                    if res[i] != "pending" {
                        continue;
                    }
                    if let Some(f) = futs[i].as_mut() {
                        match drive(f, 12) {
                            Driven::Ready(Ok(())) => res[i] = "ok".into(),
                            Driven::Ready(Err(e)) => res[i] = format!("err:{}", err_class(&e)),
                            Driven::Hung => {}
                        }
                    } else {
                        res[i] = "notsent".into();
                    }
                }
            };
            round(&mut futs, &mut res);
            let mut resupplied = false;
            if res.iter().any(|r| r == "pending") {
                // the garbage could not be attributed (or was swallowed): the server now answers request 2 properly
                let body = match op { "get" => "<data>x</data>", "open-configuration" => "", "load-configuration" => "<load-configuration-results><ok/></load-configuration-results>", _ => "<ok/>" };
                ws.ctl.push(reply_msg(id2, body));
                resupplied = true;
            }
            // the receive lock is handed over in FIFO order, so a future may need another poll
            // after the one in front of it has finished
            for _ in 0..4 {
                if res.iter().any(|r| r == "pending") {
                    round(&mut futs, &mut res);
                }
            }
            json!({"res": res, "resupplied": resupplied, "gid": gid, "glen": g.len()})
        }));
        match r {
            Ok(o) => {
                for (key, val) in o.as_object().unwrap() {
                    ev[key.as_str()] = val.clone();
                }
            }
            Err(_) => ev["panic"] = json!(true),
        }
        writeln!(out, "{ev}").unwrap();
        // one line per case, on disk before the next case starts: if the process dies (stack overflow, abort), the
        // case that killed it is the first one without a line
        out.flush().unwrap();
    }
    CASE_STARTED.store(0, std::sync::atomic::Ordering::SeqCst);
}

fn main() {
    let args: Vec<String> = std::env::args().collect();
    if std::env::var("VERIF_PANIC_TRACE").is_err() { std::panic::set_hook(Box::new(|_| {})); }
    let stdout = std::io::stdout();
    let mut out = std::io::BufWriter::new(stdout.lock());
    match args.get(1).map(String::as_str) {
        Some("c08") => c08(&args[2], args.get(3).map(String::as_str) == Some("quick"), &mut out),
        Some("c09") => c09(&args[2], &args[3], &mut out),
        Some("c12") => c12(&args[2], &mut out),
        Some("c13") => c13(&args[2], &mut out),
        Some("c10") => c10(&args[2], &mut out),
        Some("c14") => c14(&args[2], args.get(3).and_then(|s| s.parse().ok()).unwrap_or(0), &mut out),
        _ => {
            eprintln!("usage: wire c08 <cases.json> [quick] | wire c09 <contents.json> <capsets.json> | wire c12 <cases.json>");
            std::process::exit(2);
        }
    }
    let _ = operation::Token::new("x");
}
