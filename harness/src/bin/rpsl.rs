//! C11 / C17 driver: the real `bgpfu` command (stdout) and the real `bgpfu::RpslEvaluator`
//! (in-process, several evaluations on one connection with IRR errors injected per
//! evaluation) against the fake IRRd.  Results are expressed as atoms of the prefix universe
//! of spec/Rpsl.tla.
use std::{
    collections::BTreeMap,
    io::{BufRead, BufReader, Write},
    net::TcpListener,
    sync::{Arc, Mutex},
    time::Duration,
};

use ip::traits::PrefixSet as _;
use serde_json::{json, Value};
use vh::fakes::*;

/// universe atom <<family, length, index>> of a filter string's atoms
fn atom_tuple(name: &str) -> Value {
    let (a, l) = name.split_once('/').unwrap();
    let len: u32 = l.parse().unwrap();
    if let Ok(v4) = a.parse::<std::net::Ipv4Addr>() {
        let idx = (u32::from(v4) - U4_ROOT.0) >> (32 - len);
        json!([4, len, idx])
    } else {
        let v6: std::net::Ipv6Addr = a.parse().unwrap();
        let idx = (u128::from(v6) - U6_ROOT.0) >> (128 - len);
        json!([6, len, idx as u64])
    }
}

/// "10.0.0.0/9^10-10" (bgpfu output / PrefixRange Display) -> "10.0.0.0/9 /10-/10"
fn range_to_filter(s: &str) -> Option<String> {
    let s = s.trim();
    if s.is_empty() {
        return None;
    }
    let (p, r) = match s.split_once('^') {
        Some((p, r)) => (p, r.to_string()),
        None => {
            let l = s.split_once('/')?.1;
            (s, format!("{l}-{l}"))
        }
    };
    let (lo, hi) = r.split_once('-').map(|(a, b)| (a.to_string(), b.to_string())).unwrap_or((r.clone(), r.clone()));
    Some(format!("{p} /{lo}-/{hi}"))
}

fn observed(ranges: &[String]) -> (Vec<Value>, bool) {
    let mut atoms: Vec<String> = Vec::new();
    let mut extra = false;
    for r in ranges {
        match range_to_filter(r) {
            Some(f) => {
                let (a, x) = denote(&f);
                extra |= x;
                for y in a {
                    if !atoms.contains(&y) {
                        atoms.push(y);
                    }
                }
            }
            None => extra = true,
        }
    }
    (atoms.iter().map(|a| atom_tuple(a)).collect(), extra)
}

/// fake IRRd whose error set can be swapped between evaluations
struct LiveIrrd {
    port: u16,
    errors: Arc<Mutex<BTreeMap<String, String>>>,
    log: Arc<Mutex<Vec<String>>>,
    /// every query with the answer it got: (query line, status letter, items of a member list)
    qlog: Arc<Mutex<Vec<Value>>>,
}

/// the query line and its answer in the vocabulary of spec/IrrdProto.tla: [c, n, st, items]; items are the
/// words of a member list (`!i`), "good" per object (`!m`), and only counted for route lists
fn qrecord(q: &str, answer: Option<&str>, objects: usize) -> Value {
    let body = q.strip_prefix('!').unwrap_or(q);
    let (c, rest) = body.split_at(body.len().min(1));
    let n = match c {
        "i" => rest.trim_end_matches(",1").to_string(),
        "m" => rest.split_once(',').map(|(_, n)| n.to_string()).unwrap_or_default(),
        _ => rest.to_string(),
    };
    let st = answer.and_then(|a| a.chars().next()).map(String::from).unwrap_or_else(|| "-".into());
    let mut lines = answer.unwrap_or("").lines();
    let _status = lines.next();
    let items: Vec<String> = match (c, st.as_str()) {
        ("i", "A") => lines.next().unwrap_or("").split_whitespace().map(String::from).collect(),
        ("m", "A") => (0..objects.max(1)).map(|_| "good".to_string()).collect(),
        _ => vec![],
    };
    json!({"c": c, "n": n, "st": st, "items": items, "rec": rest.ends_with(",1")})
}

fn start_live(db: IrrDb, twice: bool) -> LiveIrrd {
    start_live_dribble(db, twice, 0)
}

/// `dribble` > 0: every answer is written in pieces of that many bytes (a response never arrives in one read)
fn start_live_dribble(db: IrrDb, twice: bool, dribble: usize) -> LiveIrrd {
    let listener = TcpListener::bind(("127.0.0.1", 0)).expect("bind");
    let port = listener.local_addr().unwrap().port();
    let errors: Arc<Mutex<BTreeMap<String, String>>> = Arc::new(Mutex::new(BTreeMap::new()));
    let log: Arc<Mutex<Vec<String>>> = Arc::new(Mutex::new(Vec::new()));
    let qlog: Arc<Mutex<Vec<Value>>> = Arc::new(Mutex::new(Vec::new()));
    let (e2, l2, q2) = (errors.clone(), log.clone(), qlog.clone());
    std::thread::spawn(move || {
        for stream in listener.incoming() {
            let Ok(stream) = stream else { continue };
            let (db, errors, log, qlog) = (db.clone(), e2.clone(), l2.clone(), q2.clone());
            std::thread::spawn(move || {
                let _ = stream.set_nodelay(true);
                let mut w = stream.try_clone().expect("clone");
                // the source selection of this connection: the server carries TEST and ALT and uses TEST by default
                let mut alt = false;
                for line in BufReader::new(stream).lines() {
                    let Ok(line) = line else { break };
                    let q = line.trim_end().to_string();
                    log.lock().unwrap().push(q.clone());
                    if q == "!q" {
                        break;
                    }
                    let mut d = db.clone();
                    d.errors = errors.lock().unwrap().clone();
                    let answer = d.answer_sel(&q, alt);
                    if let Some(list) = q.strip_prefix("!s") {
                        if list != "-lc" {
                            alt = list == "-*" || list.split(',').any(|x| x.trim().eq_ignore_ascii_case("ALT"));
                        }
                    }
                    let doubled = twice && q.starts_with("!mfilter-set") && answer.as_deref().is_some_and(|a| a.starts_with('A'));
                    qlog.lock().unwrap().push(qrecord(&q, answer.as_deref(), if doubled { 2 } else { 1 }));
                    if let Some(mut a) = answer {
                        // a filter-set query answered with the object twice: the resolver stops at
                        // the first match and the rest of the response must be drained
                        if twice && q.starts_with("!mfilter-set") && a.starts_with('A') {
                            if let Some((head, body)) = a.split_once('\n') {
                                let obj = body.strip_suffix("C\n").unwrap_or(body);
                                let n: usize = head[1..].parse().unwrap_or(0);
                                a = format!("A{}\n{}\n{}C\n", 2 * n + 1, obj, obj);
                            }
                        }
                        if dribble > 0 {
                            let mut broken = false;
                            for piece in a.as_bytes().chunks(dribble) {
                                if w.write_all(piece).is_err() {
                                    broken = true;
                                    break;
                                }
                                let _ = w.flush();
                                std::thread::yield_now();
                            }
                            if broken {
                                break;
                            }
                            continue;
                        }
                        if w.write_all(a.as_bytes()).is_err() {
                            break;
                        }
                        let _ = w.flush();
                    }
                }
            });
        }
    });
    LiveIrrd { port, errors, log, qlog }
}

fn errors_for(errs: &Value, names: &Value) -> BTreeMap<String, String> {
    // errs: {"asSets": [abstract names], "ases": [...], "rtSets": [...], "fltSets": [...], "kind": "D"|"E"|"F"}
    let kind = errs["kind"].as_str().unwrap_or("D").to_string();
    let mut m = BTreeMap::new();
    let real = |n: &Value| names[n.as_str().unwrap_or("")].as_str().unwrap_or("").to_string();
    for n in errs["asSets"].as_array().into_iter().flatten() {
        m.insert(format!("!i{},1", real(n)), kind.clone());
    }
    for n in errs["ases"].as_array().into_iter().flatten() {
        m.insert(format!("!g{}", real(n)), kind.clone());
        m.insert(format!("!6{}", real(n)), kind.clone());
    }
    for n in errs["rtSets"].as_array().into_iter().flatten() {
        m.insert(format!("!i{},1", real(n)), kind.clone());
    }
    for n in errs["fltSets"].as_array().into_iter().flatten() {
        m.insert(format!("!mfilter-set,{}", real(n)), kind.clone());
    }
    m
}

fn main() {
    let args: Vec<String> = std::env::args().collect();
    let mode = args.get(1).map(String::as_str).unwrap_or("");
    let groups: Vec<Value> = std::fs::read_to_string(&args[2])
        .expect("cases")
        .lines()
        .filter(|l| !l.trim().is_empty())
        .map(|l| serde_json::from_str(l).expect("json"))
        .collect();
    let stdout = std::io::stdout();
    match mode {
        // rpsl cli <groups.ndjson> <bgpfu-binary>: group = {db, irr, names, cases: [{case, expr, expr_str}]}
        "cli" => {
            let bin = args[3].clone();
            let pool: Vec<std::thread::JoinHandle<()>> = Vec::new();
            drop(pool);
            let chunks: Vec<Vec<Value>> = groups.chunks((groups.len() + 11) / 12).map(|c| c.to_vec()).collect();
            let outs: Vec<std::thread::JoinHandle<Vec<String>>> = chunks
                .into_iter()
                .map(|chunk| {
                    let bin = bin.clone();
                    std::thread::spawn(move || {
                        let mut lines = Vec::new();
                        for g in chunk {
                            let irrd = start_live_dribble(IrrDb::from_json(&g["irr"]), false, g["irr"]["dribble"].as_u64().unwrap_or(0) as usize);
                            for c in g["cases"].as_array().into_iter().flatten() {
                                let mut cmd = std::process::Command::new(&bin);
                                cmd.args(["-H", "127.0.0.1", "-P", &irrd.port.to_string(), "-q", c["expr_str"].as_str().unwrap_or("")])
                                    .stdout(std::process::Stdio::piped())
                                    .stderr(std::process::Stdio::piped());
                                // (some evaluations never end: if this harness is stopped from outside, the command goes with it)
                                vh::util::die_with_parent_std(&mut cmd);
                                let mut child = cmd.spawn().expect("spawn bgpfu");
                                // watchdog
                                let started = std::time::Instant::now();
                                let status = loop {
                                    match child.try_wait() {
                                        Ok(Some(s)) => break Some(s),
                                        Ok(None) if started.elapsed() > Duration::from_secs(8) => {
                                            let _ = child.kill();
                                            break None;
                                        }
                                        Ok(None) => std::thread::sleep(Duration::from_millis(2)),
                                        Err(_) => break None,
                                    }
                                };
                                let out = child.wait_with_output().ok();
                                let (so, se) = out
                                    .map(|o| (String::from_utf8_lossy(&o.stdout).to_string(), String::from_utf8_lossy(&o.stderr).to_string()))
                                    .unwrap_or_default();
                                let ranges: Vec<String> = so.lines().map(String::from).collect();
                                let (atoms, extra) = observed(&ranges);
                                let outcome = match status {
                                    None => "hang",
                                    Some(s) if s.success() => "ok",
                                    Some(_) if se.contains("panicked") => "panic",
                                    Some(_) => "err",
                                };
                                let mut ev = json!({"ev": "eval", "via": "bgpfu-cli", "prop": "C11", "case": c["case"], "db": g["db"], "expr": c["expr"],
                                           "expr_str": c["expr_str"], "errs": {"asSets": [], "ases": [], "rtSets": [], "fltSets": []},
                                           "pos": 1, "outcome": outcome, "atoms": atoms, "extra": extra, "ranges": ranges,
                                           "queries": irrd.log.lock().unwrap().iter().rev().take(12).cloned().collect::<Vec<String>>()});
                                if c["expect_ranges"].is_array() {
                                    // a case whose expected output is stated literally (values outside the model's universe)
                                    ev["expect_ranges"] = c["expect_ranges"].clone();
                                    let mut r: Vec<String> = ev["ranges"].as_array().unwrap().iter().filter_map(|x| x.as_str().map(|y| {
                                        // "p/l^l-l" is the prefix itself
                                        let y = y.trim().to_lowercase();
                                        match y.split_once('^') {
                                            Some((p, r)) if p.split_once('/').is_some_and(|(_, l)| r == format!("{l}-{l}") || r == l) => p.to_string(),
                                            _ => y,
                                        }
                                    })).collect();
                                    r.sort();
                                    ev["ranges"] = json!(r);
                                }
                                lines.push(ev.to_string());
                            }
                        }
                        lines
                    })
                })
                .collect();
            for h in outs {
                for l in h.join().unwrap_or_default() {
                    writeln!(stdout.lock(), "{l}").unwrap();
                }
            }
        }
        // rpsl lib <groups.ndjson> <prop>: group = {db, irr, names, twice, history: [{case, expr, expr_str, errs}]}
        "lib" => {
            let prop = args.get(3).cloned().unwrap_or_else(|| "C17".into());
            std::panic::set_hook(Box::new(|_| {}));
            for g in groups {
                let irrd = start_live_dribble(
                    IrrDb::from_json(&g["irr"]),
                    g["twice"].as_bool().unwrap_or(false),
                    g["irr"]["dribble"].as_u64().unwrap_or(0) as usize,
                );
                let mut ev = match bgpfu::RpslEvaluator::new("127.0.0.1", irrd.port) {
                    Ok(e) => e,
                    Err(_) => continue,
                };
                for (k, c) in g["history"].as_array().into_iter().flatten().enumerate() {
                    *irrd.errors.lock().unwrap() = errors_for(&c["errs"], &g["names"]);
                    let qstart = irrd.log.lock().unwrap().len();
                    let qlstart = irrd.qlog.lock().unwrap().len();
                    let expr_str = c["expr_str"].as_str().unwrap_or("").to_string();
                    let parsed: Result<rpsl::expr::MpFilterExpr, _> = expr_str.parse();
                    let (outcome, ranges) = match parsed {
                        Err(_) => ("parse-error".to_string(), vec![]),
                        Ok(expr) => {
                            let r = std::panic::catch_unwind(std::panic::AssertUnwindSafe(|| ev.evaluate(expr)));
                            match r {
                                Err(_) => ("panic".to_string(), vec![]),
                                Ok(Err(e)) => (format!("err:{e}").chars().take(80).collect::<String>(), vec![]),
                                Ok(Ok(set)) => ("ok".to_string(), set.ranges().map(|r| r.to_string()).collect::<Vec<String>>()),
                            }
                        }
                    };
                    let (atoms, extra) = observed(&ranges);
                    let queries: Vec<String> = irrd.log.lock().unwrap()[qstart..].to_vec();
                    let qlog: Vec<Value> = irrd.qlog.lock().unwrap()[qlstart..].to_vec();
                    let outcome_cls = if outcome == "ok" { "ok" } else if outcome == "panic" { "panic" } else { "err" };
                    writeln!(
                        stdout.lock(),
                        "{}",
                        json!({"ev": "eval", "via": "library", "prop": prop, "case": c["case"], "db": g["db"], "expr": c["expr"],
                               "expr_str": expr_str, "errs": {"asSets": c["errs"]["asSets"], "ases": c["errs"]["ases"],
                               "rtSets": c["errs"]["rtSets"], "fltSets": c["errs"]["fltSets"]},
                               "pos": k + 1, "outcome": outcome_cls, "detail": outcome, "atoms": atoms, "extra": extra,
                               "ranges": ranges, "queries": queries, "qlog": qlog, "names": g["names"]})
                    )
                    .unwrap();
                }
            }
        }
        _ => {
            eprintln!("usage: rpsl cli <groups.ndjson> <bgpfu-binary> | rpsl lib <groups.ndjson> [prop]");
            std::process::exit(2);
        }
    }
}
