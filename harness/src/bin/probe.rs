fn main() { println!("ok"); }
