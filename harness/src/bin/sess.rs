//! Session-layer executor (properties C05, C18; session part of C07/C14).
//!
//! Drives a real `netconf::Session` over the in-memory transport one poll() at a
//! time, following command scripts, and records what is observable after every
//! command as ndjson.  The scripts come from TLC (edge-cover walks of
//! MCSession at poll grain) or from the seeded random generator in here.
use std::{
    cell::RefCell,
    future::Future,
    collections::BTreeMap,
    future::poll_fn,
    io::{BufRead, Write},
    rc::Rc,
    sync::{Arc, Mutex},
    task::Poll,
};

use netconf::{
    message::rpc::operation::{Builder, Get},
    Session,
};
use rand::{rngs::StdRng, Rng, SeedableRng};
use serde_json::{json, Value};
use vh::{
    memtransport::{mem_transport, MemCtl, MemTransport, SendMode},
    util::*,
};

type ReplyFut = BoxFut<Result<String, netconf::Error>>;

enum CallerOut {
    Fut(ReplyFut),
    Err(String),
}

struct Exec {
    ctl: MemCtl,
    caller: BoxFut<()>,
    cmd: Arc<Mutex<Option<u8>>>,
    out: Arc<Mutex<Vec<CallerOut>>>,
    caller_busy: bool,
    /// the call that was Session::close() (it consumes the session: no call after it), and the tags of the replies
    /// pushed for it (its reply is <ok/>, which cannot carry a tag)
    close_abs: Option<u64>,
    close_tags: Vec<u64>,
    /// content besides the tag in the reply being pushed; whether any reply of this case carried some
    pad: usize,
    big_replies: bool,
    futs: BTreeMap<u64, ReplyFut>,
    done: BTreeMap<u64, Value>,
    dropped: Vec<u64>,
    next_tag: u64,
    seen_sent: usize,
    calls: u64,
    answered: Vec<u64>,
    closed: bool,
    cancel: Arc<Mutex<bool>>,
    /// message-ids are the library's business: the scripts, the model and the recorded events number the
    /// requests by the rpc() call that produced them (1, 2, ...), and these maps translate to and from the
    /// message-id that call put on the wire
    /// events produced by a command besides the one it returns (a command that stands for several)
    more: Vec<Value>,
    real_of: BTreeMap<u64, u64>,
    abs_of: BTreeMap<u64, u64>,
    /// message-ids guessed for calls that had not been made yet (a reply pushed ahead of its request)
    guessed: BTreeMap<u64, u64>,
    /// a guess turned out wrong: the script did not do what it says, the case is not judged
    misguessed: bool,
}

impl Exec {
    /// the message-id (to be) used by call `abs`
    fn real_id(&mut self, abs: u64) -> u64 {
        if let Some(r) = self.real_of.get(&abs) {
            return *r;
        }
        if let Some(r) = self.guessed.get(&abs) {
            return *r;
        }
        // not sent yet: extrapolate from the newest message-id seen (one per call, as the ids seen so far suggest)
        let (last_abs, last_real) = self.real_of.iter().next_back().map(|(a, r)| (*a, *r)).unwrap_or((0, 0));
        let stride = {
            let v: Vec<(&u64, &u64)> = self.real_of.iter().collect();
            if v.len() >= 2 && v[v.len() - 1].0 - v[v.len() - 2].0 == 1 {
                v[v.len() - 1].1.wrapping_sub(*v[v.len() - 2].1).max(1)
            } else {
                1
            }
        };
        let guess = if abs > last_abs { last_real.wrapping_add((abs - last_abs).wrapping_mul(stride)) } else { abs };
        self.guessed.insert(abs, guess);
        guess
    }

    /// the call a message-id seen on the wire belongs to (a new one: the call in progress)
    fn abs_id(&mut self, real: u64) -> u64 {
        if let Some(a) = self.abs_of.get(&real) {
            return *a;
        }
        let abs = self.calls.max(1);
        if let Some(g) = self.guessed.get(&abs) {
            if *g != real {
                self.misguessed = true;
            }
        }
        // ... or the id was guessed for another call: what the script pushed "for call b" was in fact for this one
        if self.guessed.iter().any(|(b, g)| *g == real && *b != abs) {
            self.misguessed = true;
        }
        if self.real_of.contains_key(&abs) {
            // one call, two different message-ids on the wire: keep the first, report the second as it is
            return real;
        }
        self.abs_of.insert(real, abs);
        self.real_of.insert(abs, real);
        abs
    }

    fn new() -> Self {
        let (t, ctl): (MemTransport, MemCtl) = mem_transport();
        ctl.push(server_hello(&["urn:ietf:params:netconf:base:1.0"], 7));
        let mut est: BoxFut<Result<Session<MemTransport>, netconf::Error>> =
            Box::pin(Session::verif_with_transport(t));
        let mut polled = poll_once(&mut est);
        for _ in 0..8 {
            if polled.is_ready() {
                break;
            }
            polled = poll_once(&mut est);
        }
        let session = match polled {
            Poll::Ready(Ok(s)) => s,
            Poll::Ready(Err(e)) => panic!("harness: session establishment failed: {e}"),
            Poll::Pending => panic!("harness: session establishment pending"),
        };
        in_runtime(|| drop(est));
        let cmd: Arc<Mutex<Option<u8>>> = Arc::new(Mutex::new(None));
        let out: Arc<Mutex<Vec<CallerOut>>> = Arc::new(Mutex::new(Vec::new()));
        let cancel: Arc<Mutex<bool>> = Arc::new(Mutex::new(false));
        let (cmd2, out2, cancel2) = (cmd.clone(), out.clone(), cancel.clone());
        let caller: BoxFut<()> = Box::pin(async move {
            let mut session = Some(session);
            loop {
                let what = poll_fn(|_| match cmd2.lock().unwrap().take() {
                    Some(g) => Poll::Ready(g),
                    None => Poll::Pending,
                })
                .await;
                let good = what != 0;
                if what == 2 {
                    // Session::close(): sends <close-session> and hands back the future of its reply, which owns the session
                    let Some(s) = session.take() else {
                        out2.lock().unwrap().push(CallerOut::Err("nosession".into()));
                        continue;
                    };
                    let mut cf = Box::pin(s.close());
                    let r = poll_fn(|cx| {
                        let mut c = cancel2.lock().unwrap();
                        if *c {
                            *c = false;
                            return Poll::Ready(None);
                        }
                        drop(c);
                        cf.as_mut().poll(cx).map(Some)
                    })
                    .await;
                    drop(cf);
                    let Some(r) = r else { continue };
                    let o = match r {
                        Ok(fut) => CallerOut::Fut(Box::pin(async move { fut.await.map(|()| "CLOSED".to_string()) })),
                        Err(e) => CallerOut::Err(err_class(&e).to_string()),
                    };
                    out2.lock().unwrap().push(o);
                    continue;
                }
                let Some(session) = session.as_mut() else {
                    out2.lock().unwrap().push(CallerOut::Err("nosession".into()));
                    continue;
                };
                let r = {
                    let rpc_fut = session.rpc::<Get, _>(move |b| {
                        if good {
                            b.filter(None).finish()
                        } else {
                            Err(netconf::Error::DeleteRunningConfig)
                        }
                    });
                    tokio::pin!(rpc_fut);
                    // `dropc`: the rpc() future itself is dropped while suspended
                    poll_fn(|cx| {
                        let mut c = cancel2.lock().unwrap();
                        if *c {
                            *c = false;
                            return Poll::Ready(None);
                        }
                        drop(c);
                        rpc_fut.as_mut().poll(cx).map(Some)
                    })
                    .await
                };
                let Some(r) = r else { continue };
                let o = match r {
                    Ok(fut) => CallerOut::Fut(Box::pin(async move {
                        fut.await.map(|opaque| opaque.to_string())
                    })),
                    Err(e) => CallerOut::Err(err_class(&e).to_string()),
                };
                out2.lock().unwrap().push(o);
            }
        });
        let seen_sent = ctl.sent_len();
        Exec {
            ctl,
            caller,
            cmd,
            out,
            caller_busy: false,
            close_abs: None,
            close_tags: Vec::new(),
            pad: 0,
            big_replies: false,
            futs: BTreeMap::new(),
            done: BTreeMap::new(),
            dropped: Vec::new(),
            next_tag: 0,
            seen_sent,
            calls: 0,
            answered: Vec::new(),
            closed: false,
            cancel,
            more: Vec::new(),
            real_of: BTreeMap::new(),
            abs_of: BTreeMap::new(),
            guessed: BTreeMap::new(),
            misguessed: false,
        }
    }

    /// ids of requests that reached the transport since the last call
    fn new_sent(&mut self) -> Vec<u64> {
        let sent = self.ctl.sent();
        let reals: Vec<u64> = sent[self.seen_sent..].iter().map(|m| message_id_of(m).unwrap_or(0)).collect();
        self.seen_sent = sent.len();
        reals.into_iter().map(|r| self.abs_id(r)).collect()
    }

    fn poll_caller(&mut self) -> Value {
        let _ = poll_once(&mut self.caller);
        let popped = self.out.lock().unwrap().pop();
        if let Some(o) = popped {
            self.caller_busy = false;
            match o {
                CallerOut::Fut(f) => {
                    // the future belongs to the newest request seen on the wire
                    let real = self.ctl.sent().last().and_then(|m| message_id_of(m)).unwrap_or(0);
                    let id = self.abs_id(real);
                    self.futs.insert(id, f);
                    json!({"caller": "idle", "ret": "fut", "fut": id})
                }
                CallerOut::Err(c) => json!({"caller": "idle", "ret": "err", "err": c}),
            }
        } else if self.caller_busy {
            json!({"caller": "pending", "ret": "none"})
        } else {
            json!({"caller": "idle", "ret": "none"})
        }
    }

    fn reply_xml(&mut self, id: u64, tag: u64) -> String {
        if self.close_abs == Some(id) {
            self.close_tags.push(tag);
            let id = self.real_id(id);
            return format!("<rpc-reply message-id=\"{id}\" xmlns=\"{BASE_NS}\"><ok/></rpc-reply>{EOM}");
        }
        let id = self.real_id(id);
        if self.pad > 0 {
            let filler = "<interface><name>ge-0/0/0</name><unit>0</unit></interface>".repeat(self.pad / 58 + 1);
            return format!("<rpc-reply message-id=\"{id}\" xmlns=\"{BASE_NS}\"><data>T{tag}<pad>{filler}</pad></data></rpc-reply>{EOM}");
        }
        format!(
            "<rpc-reply message-id=\"{id}\" xmlns=\"{BASE_NS}\"><data>T{tag}</data></rpc-reply>{EOM}"
        )
    }

    fn push_reply(&mut self, id: u64) -> u64 {
        self.next_tag += 1;
        let tag = self.next_tag;
        let x = self.reply_xml(id, tag);
        self.ctl.push(x);
        self.next_tag
    }

    fn poll_fut(&mut self, t: u64) -> Value {
        let Some(f) = self.futs.get_mut(&t) else {
            return json!({"state": "absent"});
        };
        match poll_once(f) {
            Poll::Pending => json!({"state": "pending"}),
            Poll::Ready(r) => {
                self.futs.remove(&t);
                let v = match r {
                    Ok(s) => {
                        let s = if s == "CLOSED" { format!("T{}", self.close_tags.first().copied().unwrap_or(0)) } else { s };
                        let digits: String = s.trim_start_matches('T').chars().take_while(|c| c.is_ascii_digit()).collect();
                        let s = if s.len() > 200 { format!("T{digits}(+{} bytes)", s.len()) } else { s };
                        let tag: u64 = digits.parse().unwrap_or(0);
                        json!({"state": "ok", "tag": tag, "raw": s})
                    }
                    Err(e) => json!({"state": "err", "err": err_class(&e)}),
                };
                self.done.insert(t, v.clone());
                v
            }
        }
    }

    fn exec(&mut self, c: &Value) -> Value {
        let name = c["c"].as_str().unwrap_or("");
        let mut ev = json!({"ev": name});
        match name {
            "rpc" => {
                let good = c["good"].as_bool().unwrap_or(true);
                ev["good"] = json!(good);
                if self.caller_busy {
                    ev["skipped"] = json!(true);
                } else {
                    self.calls += 1;
                    let close = c["close"].as_bool().unwrap_or(false);
                    if close {
                        self.close_abs = Some(self.calls);
                        ev["close"] = json!(true);
                    }
                    *self.cmd.lock().unwrap() = Some(if close { 2 } else if good { 1 } else { 0 });
                    self.caller_busy = true;
                    ev["res"] = self.poll_caller();
                }
            }
            "pollc" => {
                ev["res"] = self.poll_caller();
            }
            "poll" => {
                let t = c["t"].as_u64().unwrap();
                ev["t"] = json!(t);
                ev["res"] = self.poll_fut(t);
            }
            "drop" => {
                let t = c["t"].as_u64().unwrap();
                ev["t"] = json!(t);
                if let Some(f) = self.futs.remove(&t) {
                    in_runtime(|| drop(f));
                    self.dropped.push(t);
                } else {
                    ev["skipped"] = json!(true);
                }
            }
            "reply" | "stray" | "dup" => {
                let id = c["id"].as_u64().unwrap();
                if name == "reply" {
                    self.answered.push(id);
                }
                ev["id"] = json!(id);
                // "pad": the reply carries that many bytes of content besides its tag (a configuration of some size)
                self.pad = c["pad"].as_u64().unwrap_or(0) as usize;
                if self.pad > 0 {
                    ev["pad"] = json!(self.pad);
                    self.big_replies = true;
                }
                ev["tag"] = json!(self.push_reply(id));
                self.pad = 0;
            }
            "badbody" => {
                // header intact, body not well-formed: belongs to `id`, only its caller may see the error
                let id = c["id"].as_u64().unwrap();
                self.answered.push(id);
                self.next_tag += 1;
                ev["id"] = json!(id);
                ev["tag"] = json!(self.next_tag);
                let id = self.real_id(id);
                self.ctl.push(format!(
                    "<rpc-reply message-id=\"{id}\" xmlns=\"{BASE_NS}\"><data>T{}</wrong></rpc-reply>{EOM}",
                    self.next_tag
                ));
            }
            "glued" => {
                // two replies in one frame (a delimiter got lost): the second carries content that belongs to nobody
                let id = c["id"].as_u64().unwrap();
                self.answered.push(id);
                self.next_tag += 1;
                ev["id"] = json!(id);
                ev["tag"] = json!(self.next_tag);
                let other = if id == 1 { 2 } else { id - 1 };
                let (id, other_real) = (self.real_id(id), self.real_id(other));
                self.ctl.push(format!(
                    "<rpc-reply message-id=\"{id}\" xmlns=\"{BASE_NS}\"><data>T{}</data></rpc-reply><rpc-reply message-id=\"{other_real}\" xmlns=\"{BASE_NS}\"><data>T{}</data></rpc-reply>{EOM}",
                    self.next_tag,
                    900 + other
                ));
            }
            "garbage" => {
                self.next_tag += 1;
                ev["tag"] = json!(self.next_tag);
                let one = self.real_id(1);
                self.ctl.push(format!("<rpc-reply message-id=\"{one}\" <<<{EOM}"));
            }
            "close" => {
                self.closed = true;
                self.ctl.close();
            }
            "dropc" => {
                if self.caller_busy {
                    *self.cancel.lock().unwrap() = true;
                    let _ = poll_once(&mut self.caller);
                    self.caller_busy = false;
                } else {
                    ev["skipped"] = json!(true);
                }
            }
            "answerall" => {
                // the server answers every request it has seen and not answered yet, in the given order
                let mut ids: Vec<u64> = self.sent_ids().into_iter().filter(|i| !self.answered.contains(i)).collect();
                match c["order"].as_str().unwrap_or("fifo") {
                    "lifo" => ids.reverse(),
                    "odd-even" => {
                        let (a, b): (Vec<u64>, Vec<u64>) = ids.iter().partition(|i| **i % 2 == 1);
                        ids = a.into_iter().chain(b).collect();
                    }
                    _ => {}
                }
                for i in &ids {
                    self.answered.push(*i);
                    let tag = self.push_reply(*i);
                    // each reply is an event of its own for the contract monitor
                    self.more.push(json!({"ev": "reply", "id": i, "tag": tag, "sent": [], "delivered": self.ctl.delivered() - 1,
                                          "rwait": self.ctl.recv_waiting()}));
                }
                ev["n"] = json!(ids.len());
            }
            "stuckcheck" => {
                // every request on the wire has been answered and the send side is free: a call of rpc() that is still
                // pending now waits for something only the caller's OTHER futures could give it
                ev["caller_busy"] = json!(self.caller_busy);
                ev["calls"] = json!(self.calls);
                ev["on_wire"] = json!(self.sent_ids().len());
            }
            "mode" => {
                let m = c["m"].as_str().unwrap_or("free");
                ev["m"] = json!(m);
                self.ctl.set_send_mode(match m {
                    "before" => SendMode::Before,
                    "after" => SendMode::After,
                    _ => SendMode::Free,
                });
            }
            _ => {
                ev["skipped"] = json!(true);
            }
        }
        ev["sent"] = json!(self.new_sent());
        ev["delivered"] = json!(self.ctl.delivered() - 1);
        ev["rwait"] = json!(self.ctl.recv_waiting());
        ev
    }

    /// Poll everything round-robin until nothing changes any more; emits the polls as
    /// ordinary events followed by a `quiesce` marker listing who is still pending.
    fn quiesce(&mut self, emit: &mut dyn FnMut(Value)) {
        // A round without *observable* change may still have moved a lock from one
        // waiter to the next, so stop only after more idle rounds than there are parties.
        let mut idle_rounds = 0usize;
        loop {
            let mut progress = false;
            if self.caller_busy {
                let before = (self.ctl.sent_len(), self.caller_busy);
                let e = self.exec(&json!({"c": "pollc"}));
                emit(e);
                if (self.ctl.sent_len(), self.caller_busy) != before {
                    progress = true;
                }
            }
            let ids: Vec<u64> = self.futs.keys().copied().collect();
            for t in ids {
                let before = (self.ctl.delivered(), self.futs.len());
                let e = self.exec(&json!({"c": "poll", "t": t}));
                emit(e);
                if (self.ctl.delivered(), self.futs.len()) != before {
                    progress = true;
                }
            }
            if progress {
                idle_rounds = 0;
            } else {
                idle_rounds += 1;
                if idle_rounds > self.futs.len() + 2 {
                    break;
                }
            }
        }
        // a library may hand a big message to another thread: before a future is reported as left waiting, give such
        // work real time to come back
        if self.big_replies && !self.futs.is_empty() {
            for _ in 0..10 {
                std::thread::sleep(std::time::Duration::from_millis(20));
                let ids: Vec<u64> = self.futs.keys().copied().collect();
                for t in ids {
                    let e = self.exec(&json!({"c": "poll", "t": t}));
                    emit(e);
                }
                if self.futs.is_empty() {
                    break;
                }
            }
        }
        let pending: Vec<u64> = self.futs.keys().copied().collect();
        emit(json!({"ev": "quiesce", "pending": pending, "caller_busy": self.caller_busy,
                    "inbox": self.ctl.inbox_len()}));
    }
}

impl Exec {
    fn sent_ids(&mut self) -> Vec<u64> {
        let reals: Vec<u64> = self.ctl.sent()[1..].iter().filter_map(|m| message_id_of(m)).collect();
        reals.into_iter().map(|r| self.abs_id(r)).collect()
    }

    /// Epilogue of every case: the peer becomes responsive (send side freed, every
    /// request seen on the wire answered), everything is polled to quiescence, and - unless
    /// the peer closed - one more request must go through (C18: session still usable).
    fn finish(&mut self, emit: &mut dyn FnMut(Value)) {
        let e = self.exec(&json!({"c": "mode", "m": "free"}));
        emit(e);
        let e = self.exec(&json!({"c": "pollc"}));
        emit(e);
        for i in self.sent_ids() {
            if !self.answered.contains(&i) {
                let e = self.exec(&json!({"c": "reply", "id": i}));
                emit(e);
            }
        }
        self.quiesce(emit);
        if !self.closed && !self.caller_busy && self.close_abs.is_none() {
            let before = self.sent_ids().len();
            let e = self.exec(&json!({"c": "rpc", "good": true}));
            emit(e);
            let ids = self.sent_ids();
            if ids.len() > before {
                let e = self.exec(&json!({"c": "reply", "id": ids[ids.len() - 1]}));
                emit(e);
            }
            self.quiesce(emit);
        }
    }
}

fn run_case(case: &str, cmds: &[Value], out: &mut dyn Write) {
    let mut seq = 0u64;
    let mut emit = |mut v: Value| {
        seq += 1;
        v["case"] = json!(case);
        v["seq"] = json!(seq);
        writeln!(out, "{v}").unwrap();
    };
    emit(json!({"ev": "reset"}));
    let r = std::panic::catch_unwind(std::panic::AssertUnwindSafe(|| {
        let mut ex = Exec::new();
        let mut evs = Vec::new();
        for c in cmds {
            if c["c"] == "quiesce" {
                ex.quiesce(&mut |v| evs.push(v));
            } else if c["c"] == "finish" {
                ex.finish(&mut |v| evs.push(v));
            } else {
                let e = ex.exec(c);
                evs.push(e);
                evs.append(&mut ex.more);
            }
        }
        if ex.misguessed {
            // a reply was pushed ahead of its request under a message-id the library then did not use: the
            // script did not do what it says, nothing can be concluded from this case
            evs = vec![json!({"ev": "nomodel"}), json!({"ev": "quiesce", "pending": [], "caller_busy": false, "inbox": 0, "not_judged": "message-ids not predictable"})];
        }
        in_runtime(|| drop(ex));
        evs
    }));
    match r {
        Ok(evs) => {
            for e in evs {
                emit(e);
            }
        }
        Err(p) => {
            let msg = p
                .downcast_ref::<String>()
                .cloned()
                .or_else(|| p.downcast_ref::<&str>().map(|s| s.to_string()))
                .unwrap_or_default();
            emit(json!({"ev": "panic", "msg": msg}));
        }
    }
}

/// Seeded random command scripts, generated online from what the harness itself can
/// observe (ids seen on the wire, futures it holds) - not from the model's state.
fn random_case(
    rng: &mut StdRng,
    len: usize,
    drops: usize,
    faults: bool,
    nmax: u64,
    ex: &mut Exec,
    emit: &mut dyn FnMut(Value),
) -> Vec<Value> {
    let mut cmds = Vec::new();
    let mut answered: Vec<u64> = Vec::new();
    let mut ndrops = 0;
    let mut closed = false;
    // every third script may end its calls with Session::close()
    let with_close = rng.gen_range(0..3) == 0;
    let sent_ids = |ex: &mut Exec| -> Vec<u64> { ex.sent_ids() };
    let mut step = |ex: &mut Exec, c: Value, cmds: &mut Vec<Value>, emit: &mut dyn FnMut(Value)| {
        if c["c"] == "quiesce" {
            ex.quiesce(emit);
        } else {
            let e = ex.exec(&c);
            emit(e);
        }
        cmds.push(c);
    };
    for _ in 0..len {
        let k = rng.gen_range(0..100);
        let live: Vec<u64> = ex.futs.keys().copied().collect();
        let c = if k < 18 && ex.calls < nmax && !ex.caller_busy && ex.close_abs.is_none() {
            let good = !faults || rng.gen_range(0..8) != 0;
            // now and then the call is Session::close(): one more request in the pipeline, whose reply future owns the
            // session (dropping it is dropping a reply future like any other)
            if good && with_close && ex.calls >= 1 && rng.gen_range(0..4) == 0 {
                Some(json!({"c": "rpc", "good": true, "close": true}))
            } else {
                Some(json!({"c": "rpc", "good": good}))
            }
        } else if k < 26 && ex.caller_busy {
            Some(json!({"c": "pollc"}))
        } else if k < 56 && !live.is_empty() {
            Some(json!({"c": "poll", "t": live[rng.gen_range(0..live.len())]}))
        } else if k < 74 {
            let cand: Vec<u64> = sent_ids(ex)
                .into_iter()
                .filter(|i| !answered.contains(i))
                .collect();
            if cand.is_empty() {
                None
            } else {
                let i = cand[rng.gen_range(0..cand.len())];
                answered.push(i);
                // one reply in six is a big one (beyond 64 KiB / 256 KiB)
                match rng.gen_range(0..12) {
                    0 => Some(json!({"c": "reply", "id": i, "pad": 70_000})),
                    1 => Some(json!({"c": "reply", "id": i, "pad": 300_000})),
                    _ => Some(json!({"c": "reply", "id": i})),
                }
            }
        } else if k < 82 {
            let m = ["free", "before", "after"][rng.gen_range(0..3)];
            Some(json!({"c": "mode", "m": m}))
        } else if k < 88 && ndrops < drops && !live.is_empty() {
            ndrops += 1;
            Some(json!({"c": "drop", "t": live[rng.gen_range(0..live.len())]}))
        } else if faults && k < 91 {
            let i = rng.gen_range(1..=nmax + 1);
            if sent_ids(ex).contains(&i) {
                None
            } else {
                Some(json!({"c": "stray", "id": i}))
            }
        } else if faults && k < 94 && !answered.is_empty() {
            Some(json!({"c": "dup", "id": answered[rng.gen_range(0..answered.len())]}))
        } else if faults && k < 94 && rng.gen_range(0..3) == 0 {
            let cand: Vec<u64> = sent_ids(ex).into_iter().filter(|i| !answered.contains(i)).collect();
            if cand.is_empty() {
                None
            } else {
                let i = cand[rng.gen_range(0..cand.len())];
                answered.push(i);
                Some(json!({"c": "glued", "id": i}))
            }
        } else if faults && k < 95 {
            Some(json!({"c": "garbage"}))
        } else if faults && k < 96 {
            let cand: Vec<u64> = sent_ids(ex).into_iter().filter(|i| !answered.contains(i)).collect();
            if cand.is_empty() {
                None
            } else {
                let i = cand[rng.gen_range(0..cand.len())];
                answered.push(i);
                Some(json!({"c": "badbody", "id": i}))
            }
        } else if faults && k < 97 && !closed {
            closed = true;
            Some(json!({"c": "close"}))
        } else {
            None
        };
        if let Some(c) = c {
            step(ex, c, &mut cmds, emit);
        }
    }
    // responsive server: free the send side, answer everything, then quiesce
    step(ex, json!({"c": "mode", "m": "free"}), &mut cmds, emit);
    step(ex, json!({"c": "pollc"}), &mut cmds, emit);
    for i in sent_ids(ex) {
        if !answered.contains(&i) {
            answered.push(i);
            step(ex, json!({"c": "reply", "id": i}), &mut cmds, emit);
        }
    }
    step(ex, json!({"c": "quiesce"}), &mut cmds, emit);
    if !closed && ex.close_abs.is_none() {
        // the session must still be usable for a new request (C18)
        let before = sent_ids(ex).len();
        step(ex, json!({"c": "rpc", "good": true}), &mut cmds, emit);
        let ids = sent_ids(ex);
        if ids.len() > before {
            step(ex, json!({"c": "reply", "id": ids[ids.len() - 1]}), &mut cmds, emit);
        }
        step(ex, json!({"c": "quiesce"}), &mut cmds, emit);
    }
    cmds
}

/// Free-running stress on a multi-threaded runtime (C05): pipelined requests, replies in a
/// random order with random delays, reply futures awaited in one task (join) or spread over
/// tasks, while the caller keeps sending.  Only the contract is checked on these runs (the
/// trace starts with `nomodel`): events are written grouped (sends, replies, results), not in
/// real-time order.
fn stress_case(seed: u64, case: &str, out: &mut dyn Write) -> bool {
    use std::time::Duration;
    let rt = tokio::runtime::Builder::new_multi_thread()
        .worker_threads(4)
        .enable_all()
        .build()
        .unwrap();
    let mut lines: Vec<Value> = vec![json!({"ev": "reset"}), json!({"ev": "nomodel"})];
    let res = rt.block_on(async move {
        let mut rng = StdRng::seed_from_u64(seed);
        let (t, ctl) = mem_transport();
        ctl.push(server_hello(&["urn:ietf:params:netconf:base:1.0"], 7));
        let mut session = Session::verif_with_transport(t).await.expect("session");
        let n: usize = rng.gen_range(2..=8);
        let pushes: Arc<Mutex<Vec<u64>>> = Arc::new(Mutex::new(Vec::new()));
        // server: answers every request it sees, in random order, with random pauses
        let server = {
            let ctl = ctl.clone();
            let pushes = pushes.clone();
            let mut srng = StdRng::seed_from_u64(seed ^ 0x9e3779b97f4a7c15);
            tokio::spawn(async move {
                let mut answered: Vec<u64> = Vec::new();
                let mut idle = 0;
                loop {
                    let ids: Vec<u64> = ctl.sent()[1..]
                        .iter()
                        .filter_map(|m| message_id_of(m))
                        .filter(|i| !answered.contains(i))
                        .collect();
                    if ids.is_empty() {
                        idle += 1;
                        if answered.len() >= n || idle > 20000 {
                            break;
                        }
                        tokio::task::yield_now().await;
                        if idle % 50 == 0 {
                            tokio::time::sleep(Duration::from_micros(200)).await;
                        }
                        continue;
                    }
                    idle = 0;
                    // sometimes wait for more requests to pile up so that replies can be reordered
                    if srng.gen_range(0..3) == 0 && ids.len() < 3 && answered.len() + ids.len() < n {
                        tokio::time::sleep(Duration::from_micros(srng.gen_range(0..300))).await;
                        continue;
                    }
                    let i = ids[srng.gen_range(0..ids.len())];
                    answered.push(i);
                    let tag = {
                        let mut p = pushes.lock().unwrap();
                        p.push(i);
                        p.len() as u64
                    };
                    ctl.push(format!(
                        "<rpc-reply message-id=\"{i}\" xmlns=\"{BASE_NS}\"><data>T{tag}</data></rpc-reply>{EOM}"
                    ));
                    for _ in 0..srng.gen_range(0..4) {
                        tokio::task::yield_now().await;
                    }
                }
            })
        };
        let results: Arc<Mutex<Vec<(u64, Result<String, String>)>>> = Arc::new(Mutex::new(Vec::new()));
        let mut handles = Vec::new();
        let mut joined: Vec<(u64, ReplyFut)> = Vec::new();
        let mut rpc_errs: Vec<String> = Vec::new();
        for k in 0..n {
            let r = session.rpc::<Get, _>(|b| b.filter(None).finish()).await;
            let _ = k;
            // the request just sent is the newest on the wire (this task is the only sender)
            let id = ctl.sent().last().and_then(|m| message_id_of(m)).unwrap_or(0);
            match r {
                Ok(fut) => {
                    let f: ReplyFut = Box::pin(async move { fut.await.map(|o| o.to_string()) });
                    if rng.gen_range(0..2) == 0 {
                        joined.push((id, f));
                    } else {
                        let results = results.clone();
                        handles.push((
                            vec![id],
                            tokio::spawn(async move {
                                let r = f.await.map_err(|e| err_class(&e).to_string());
                                results.lock().unwrap().push((id, r));
                            }),
                        ));
                    }
                }
                Err(e) => rpc_errs.push(err_class(&e).to_string()),
            }
            if rng.gen_range(0..3) == 0 && !joined.is_empty() {
                // flush the joined group into one task awaiting all of them together
                let group = std::mem::take(&mut joined);
                let ids: Vec<u64> = group.iter().map(|g| g.0).collect();
                let results = results.clone();
                handles.push((
                    ids,
                    tokio::spawn(async move {
                        let outs = futures::future::join_all(group.into_iter().map(|(id, f)| async move {
                            (id, f.await.map_err(|e| err_class(&e).to_string()))
                        }))
                        .await;
                        results.lock().unwrap().extend(outs);
                    }),
                ));
            }
            for _ in 0..rng.gen_range(0..3) {
                tokio::task::yield_now().await;
            }
        }
        if !joined.is_empty() {
            let group = std::mem::take(&mut joined);
            let ids: Vec<u64> = group.iter().map(|g| g.0).collect();
            let results = results.clone();
            handles.push((
                ids,
                tokio::spawn(async move {
                    let outs = futures::future::join_all(group.into_iter().map(|(id, f)| async move {
                        (id, f.await.map_err(|e| err_class(&e).to_string()))
                    }))
                    .await;
                    results.lock().unwrap().extend(outs);
                }),
            ));
        }
        // generous watchdog: the server answers everything within microseconds
        let mut pending: Vec<u64> = Vec::new();
        let mut panicked = false;
        let deadline = tokio::time::Instant::now() + Duration::from_secs(10);
        for (ids, h) in handles {
            match tokio::time::timeout_at(deadline, h).await {
                Ok(Ok(())) => {}
                Ok(Err(_)) => panicked = true,
                Err(_) => pending.extend(ids),
            }
        }
        let _ = tokio::time::timeout(Duration::from_secs(2), server).await;
        let sent: Vec<u64> = ctl.sent()[1..].iter().filter_map(|m| message_id_of(m)).collect();
        let pushes = pushes.lock().unwrap().clone();
        let results = results.lock().unwrap().clone();
        (sent, pushes, results, pending, rpc_errs, panicked)
    });
    let (sent, pushes, results, mut pending, rpc_errs, panicked) = res;
    // message-ids are the library's business: the events number the requests by their position on the wire
    // (a message-id used twice keeps its first number, which is what the contract's UniqueIds looks at)
    let mut first: Vec<u64> = Vec::new();
    for r in &sent {
        if !first.contains(r) {
            first.push(*r);
        }
    }
    let abs = |r: u64| -> u64 { first.iter().position(|x| *x == r).map(|p| p as u64 + 1).unwrap_or(r) };
    let sent: Vec<u64> = sent.iter().map(|r| abs(*r)).collect();
    let pushes: Vec<u64> = pushes.iter().map(|r| abs(*r)).collect();
    let results: Vec<(u64, Result<String, String>)> = results.into_iter().map(|(i, r)| (abs(i), r)).collect();
    pending = pending.into_iter().map(abs).collect();
    lines.push(json!({"ev": "pollc", "sent": sent, "res": {"caller": "idle", "ret": "none"}}));
    for e in rpc_errs {
        lines.push(json!({"ev": "rpc", "good": true, "res": {"caller": "idle", "ret": "err", "err": e}}));
    }
    for (k, i) in pushes.iter().enumerate() {
        lines.push(json!({"ev": "reply", "id": i, "tag": k + 1}));
    }
    let done: Vec<u64> = results.iter().map(|r| r.0).collect();
    for (id, r) in results {
        let res = match r {
            Ok(s) => json!({"state": "ok", "tag": s.trim_start_matches('T').parse::<u64>().unwrap_or(0), "raw": s}),
            Err(c) => json!({"state": "err", "err": c}),
        };
        lines.push(json!({"ev": "poll", "t": id, "res": res}));
    }
    pending.retain(|p| !done.contains(p));
    if panicked {
        lines.push(json!({"ev": "panic", "msg": "a task awaiting replies panicked"}));
    }
    let hung = !pending.is_empty();
    lines.push(json!({"ev": "quiesce", "pending": pending, "caller_busy": false, "inbox": 0}));
    for (k, mut v) in lines.into_iter().enumerate() {
        v["case"] = json!(case);
        v["seq"] = json!(k + 1);
        writeln!(out, "{v}").unwrap();
    }
    hung
}

fn main() {
    let args: Vec<String> = std::env::args().collect();
    let mode = args.get(1).map(String::as_str).unwrap_or("");
    let stdout = std::io::stdout();
    let mut out = std::io::BufWriter::new(stdout.lock());
    // keep panics of the code under test out of stderr noise; they are recorded as events
    std::panic::set_hook(Box::new(|_| {}));
    match mode {
        "replay" => {
            // sess replay <cases.ndjson>
            let f = std::fs::File::open(&args[2]).expect("cases file");
            for line in std::io::BufReader::new(f).lines() {
                let line = line.unwrap();
                if line.trim().is_empty() {
                    continue;
                }
                let v: Value = serde_json::from_str(&line).expect("case json");
                let case = v["case"].as_str().unwrap_or("?").to_string();
                let cmds = v["cmds"].as_array().cloned().unwrap_or_default();
                run_case(&case, &cmds, &mut out);
            }
        }
        "random" => {
            // sess random <seed> <count> <len> <drops> <faults 0|1> [cases-out]
            let seed: u64 = args[2].parse().unwrap();
            let count: usize = args[3].parse().unwrap();
            let len: usize = args[4].parse().unwrap();
            let drops: usize = args[5].parse().unwrap();
            let faults = args[6] == "1";
            let mut cases_out = args.get(7).filter(|p| p.as_str() != "-").map(|p| std::fs::File::create(p).unwrap());
            // more rpc() calls than the model has room for: long sessions, judged by the contract alone
            let nmax: u64 = args.get(8).and_then(|s| s.parse().ok()).unwrap_or(6);
            let mut rng = StdRng::seed_from_u64(seed);
            for k in 0..count {
                let case = format!("r{seed}-{k}");
                let mut seq = 0u64;
                let mut lines: Vec<String> = Vec::new();
                let mut emit = |mut v: Value| {
                    seq += 1;
                    v["case"] = json!(case);
                    v["seq"] = json!(seq);
                    lines.push(v.to_string());
                };
                emit(json!({"ev": "reset"}));
                if nmax > 8 {
                    emit(json!({"ev": "nomodel"}));
                }
                let r = std::panic::catch_unwind(std::panic::AssertUnwindSafe(|| {
                    let mut ex = Exec::new();
                    let cmds = random_case(&mut rng, len, drops, faults, nmax, &mut ex, &mut emit);
                    let mis = ex.misguessed;
                    in_runtime(|| drop(ex));
                    (cmds, mis)
                }));
                let cmds = match r {
                    Ok((c, false)) => c,
                    Ok((c, true)) => {
                        // (see run_case) a reply was pushed ahead of its request under a message-id the library did not use
                        lines.truncate(1);
                        seq = 1;
                        for v in [json!({"ev": "nomodel"}),
                                  json!({"ev": "quiesce", "pending": [], "caller_busy": false, "inbox": 0, "not_judged": "message-ids not predictable"})] {
                            let mut v = v;
                            seq += 1;
                            v["case"] = json!(case);
                            v["seq"] = json!(seq);
                            lines.push(v.to_string());
                        }
                        c
                    }
                    Err(_) => {
                        emit(json!({"ev": "panic", "msg": "panic in code under test"}));
                        Vec::new()
                    }
                };
                for l in &lines {
                    writeln!(out, "{l}").unwrap();
                }
                if let Some(f) = cases_out.as_mut() {
                    writeln!(f, "{}", json!({"case": case, "cmds": cmds})).unwrap();
                }
            }
        }
        "stress" => {
            // sess stress <seed> <count>
            let seed: u64 = args[2].parse().unwrap();
            let count: u64 = args[3].parse().unwrap();
            let mut hung = 0;
            for k in 0..count {
                if stress_case(seed.wrapping_mul(1000003).wrapping_add(k), &format!("s{seed}-{k}"), &mut out) {
                    // every hung case costs the whole watchdog time: two are enough to report
                    hung += 1;
                    if hung >= 2 {
                        break;
                    }
                }
            }
        }
        _ => {
            eprintln!("usage: sess replay <cases.ndjson> | sess random <seed> <count> <len> <drops> <faults> [cases-out]");
            std::process::exit(2);
        }
    }
    let _ = Rc::new(RefCell::new(0)); // keep imports used
}
