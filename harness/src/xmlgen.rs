//! A tiny XML tree model with a renderer that can produce many information-equivalent
//! serialisations of the same document (C13), and a strict well-formedness checker (C10).
use crate::util::{BASE_NS, EOM};

#[derive(Debug, Clone)]
pub enum Node {
    Elem(Elem),
    Text(String),
}

#[derive(Debug, Clone)]
pub struct Elem {
    /// namespace URI ("" = none); BASE elements are subject to the prefix/default rewrite
    pub ns: String,
    pub name: String,
    pub attrs: Vec<(String, String)>,
    pub kids: Vec<Node>,
    /// text of this element is a token (may be padded with white space)
    pub token: bool,
}

pub fn el(name: &str, kids: Vec<Node>) -> Node {
    Node::Elem(Elem { ns: BASE_NS.into(), name: name.into(), attrs: vec![], kids, token: false })
}
pub fn el_ns(ns: &str, name: &str, kids: Vec<Node>) -> Node {
    Node::Elem(Elem { ns: ns.into(), name: name.into(), attrs: vec![], kids, token: false })
}
pub fn tok(name: &str, text: &str) -> Node {
    Node::Elem(Elem { ns: BASE_NS.into(), name: name.into(), attrs: vec![], kids: vec![Node::Text(text.into())], token: true })
}
pub fn txt(name: &str, text: &str) -> Node {
    Node::Elem(Elem { ns: BASE_NS.into(), name: name.into(), attrs: vec![], kids: vec![Node::Text(text.into())], token: false })
}
pub fn with_attrs(n: Node, attrs: &[(&str, &str)]) -> Node {
    match n {
        Node::Elem(mut e) => {
            e.attrs = attrs.iter().map(|(k, v)| (k.to_string(), v.to_string())).collect();
            Node::Elem(e)
        }
        t => t,
    }
}

#[derive(Debug, Clone, Copy, Default)]
pub struct Style {
    /// base namespace bound to the prefix `nc:` instead of being the default namespace
    pub pfx: bool,
    /// new line + indentation between elements
    pub ws: bool,
    /// white space around token-valued text
    pub pad: bool,
    /// comments between elements
    pub cmt: bool,
    /// attributes in reverse order and single-quoted
    pub attr: bool,
    /// XML declaration in front
    pub decl: bool,
    /// <x></x> instead of <x/>
    pub empt: bool,
    /// a comment in the middle of token-valued text: the character content of the element is the same
    pub cmtmid: bool,
    /// namespace prefixes that only attributes use are declared once, on the root element, instead of on every element
    /// that uses them
    pub nsup: bool,
    /// line ends of the layout written as CR LF / as bare CR (white space all the same)
    pub crlf: bool,
    pub cr: bool,
}

pub const FLAGS: [&str; 11] = ["pfx", "ws", "pad", "cmt", "attr", "decl", "empt", "cmtmid", "nsup", "crlf", "cr"];

impl Style {
    pub fn from_flags(flags: &[String]) -> Style {
        let has = |f: &str| flags.iter().any(|x| x == f);
        Style { pfx: has("pfx"), ws: has("ws"), pad: has("pad"), cmt: has("cmt"), attr: has("attr"), decl: has("decl"), empt: has("empt"), cmtmid: has("cmtmid"), nsup: has("nsup"), crlf: has("crlf"), cr: has("cr") }
    }
}

fn esc(s: &str) -> String {
    s.replace('&', "&amp;").replace('<', "&lt;").replace('>', "&gt;")
}

fn render_node(n: &Node, st: &Style, depth: usize, root: bool, parent_ns: &str, out: &mut String) {
    match n {
        Node::Text(t) => out.push_str(&esc(t)),
        Node::Elem(e) => {
            let base = e.ns == BASE_NS;
            let foreign = !base && !e.ns.is_empty();
            let qname = if base && st.pfx {
                format!("nc:{}", e.name)
            } else if foreign && st.pfx {
                format!("p:{}", e.name)
            } else {
                e.name.clone()
            };
            let mut attrs: Vec<(String, String)> = Vec::new();
            if root {
                if st.pfx {
                    attrs.push(("xmlns:nc".into(), BASE_NS.into()));
                } else {
                    attrs.push(("xmlns".into(), BASE_NS.into()));
                }
            } else if foreign && e.ns != parent_ns {
                attrs.push((if st.pfx { "xmlns:p" } else { "xmlns" }.into(), e.ns.clone()));
            } else if base && !st.pfx && parent_ns != BASE_NS {
                attrs.push(("xmlns".into(), BASE_NS.into()));
            }
            attrs.extend(e.attrs.iter().cloned());
            if st.attr {
                attrs.reverse();
            }
            let q = if st.attr { '\'' } else { '"' };
            let indent = |out: &mut String, d: usize| {
                if st.ws {
                    out.push('\n');
                    for _ in 0..d {
                        out.push_str("  ");
                    }
                }
            };
            out.push('<');
            out.push_str(&qname);
            for (k, v) in &attrs {
                out.push_str(&format!(" {k}={q}{}{q}", esc(v).replace(q, if q == '"' { "&quot;" } else { "&apos;" })));
            }
            if e.kids.is_empty() {
                if st.empt && st.cmt {
                    // start and end tag with nothing but a comment between them: still an element without content
                    out.push_str(&format!("><!-- none & nothing <here> --></{qname}>"));
                } else if st.empt {
                    out.push_str(&format!("></{qname}>"));
                } else {
                    out.push_str("/>");
                }
                return;
            }
            out.push('>');
            let only_text = e.kids.iter().all(|k| matches!(k, Node::Text(_)));
            let my_ns = if base { BASE_NS.to_string() } else { e.ns.clone() };
            if only_text {
                if e.token && st.pad {
                    out.push_str("\n   ");
                }
                for k in &e.kids {
                    if e.token && st.cmtmid {
                        if let Node::Text(t) = k {
                            let mid = t.char_indices().nth(t.chars().count() / 2).map(|(i, _)| i).unwrap_or(0);
                            out.push_str(&esc(&t[..mid]));
                            out.push_str("<!-- mid -->");
                            out.push_str(&esc(&t[mid..]));
                            continue;
                        }
                    }
                    render_node(k, st, depth + 1, false, &my_ns, out);
                }
                if e.token && st.pad {
                    out.push_str("  \n ");
                }
            } else {
                for k in &e.kids {
                    indent(out, depth + 1);
                    if st.cmt {
                        out.push_str("<!-- c & d: if a < b && b > c -->");
                        indent(out, depth + 1);
                    }
                    render_node(k, st, depth + 1, false, &my_ns, out);
                }
                if st.cmt {
                    indent(out, depth + 1);
                    out.push_str("<!-- tail -->");
                }
                indent(out, depth);
            }
            out.push_str(&format!("</{qname}>"));
        }
    }
}

/// `xmlns:<prefix>` attributes of the elements below the root, removed there and collected (first binding of a prefix
/// wins; an element that binds the prefix to something else keeps its own declaration)
fn hoist_ns(n: &mut Node, root: bool, up: &mut Vec<(String, String)>) {
    if let Node::Elem(e) = n {
        if !root {
            e.attrs.retain(|(k, v)| {
                if !k.starts_with("xmlns:") || k == "xmlns:nc" || k == "xmlns:p" {
                    return true;
                }
                match up.iter().find(|(k2, _)| k2 == k) {
                    Some((_, v2)) => v2 != v,
                    None => {
                        up.push((k.clone(), v.clone()));
                        false
                    }
                }
            });
        }
        for k in e.kids.iter_mut() {
            hoist_ns(k, false, up);
        }
    }
}

/// Serialise `root` in the given style, followed by the end-of-message delimiter.
pub fn render(root: &Node, st: &Style) -> String {
    let hoisted;
    let root = if st.nsup {
        let mut r = root.clone();
        let mut up = Vec::new();
        hoist_ns(&mut r, true, &mut up);
        if let Node::Elem(e) = &mut r {
            for (k, v) in up {
                if !e.attrs.iter().any(|(k2, _)| *k2 == k) {
                    e.attrs.push((k, v));
                }
            }
        }
        hoisted = r;
        &hoisted
    } else {
        root
    };
    if st.crlf || st.cr {
        // lay the document out with the other line-end convention (every line feed the layout writes; text content of
        // the templates has none)
        let plain = render(root, &Style { crlf: false, cr: false, nsup: false, ..st.clone() });
        let body = plain.strip_suffix(EOM).unwrap_or(&plain);
        return format!("{}{EOM}", body.replace('\n', if st.crlf { "\r\n" } else { "\r" }));
    }
    let mut s = String::new();
    if st.decl {
        // the declaration itself has several equivalent spellings: pick one by the other flags
        s.push_str(match (st.attr, st.pad, st.cmt) {
            (true, _, _) => "<?xml version='1.0' encoding='utf-8'?>",
            (false, true, _) => "<?xml version=\"1.0\" ?>",
            (false, false, true) => "<?xml version=\"1.0\" encoding=\"Utf-8\" standalone=\"yes\"?>",
            _ => "<?xml version=\"1.0\" encoding=\"UTF-8\"?>",
        });
        if st.ws {
            s.push('\n');
        }
    }
    if st.cmt {
        // comments are allowed before and after the root element as well
        // ("&" and "<" are ordinary characters inside a comment)
        s.push_str("<!-- before the root: user r&d, class <super-user>, &motd; -->");
    }
    render_node(root, st, 0, true, "", &mut s);
    if st.cmt {
        s.push_str("<!-- after the root & all -->");
    }
    if st.ws {
        s.push('\n');
    }
    s.push_str(EOM);
    s
}

/// Convert a parsed document into the tree model, resolving element namespaces (prefix
/// declarations that only attributes use are kept as attributes).
fn to_node(e: &PElem, scope: &[(String, String)], tokens: &[&str]) -> Node {
    let mut scope: Vec<(String, String)> = scope.to_vec();
    let mut attrs = Vec::new();
    for (k, v) in &e.attrs {
        if k == "xmlns" {
            scope.push((String::new(), v.clone()));
        } else if let Some(p) = k.strip_prefix("xmlns:") {
            scope.push((p.to_string(), v.clone()));
            attrs.push((k.clone(), v.clone()));
        } else {
            attrs.push((k.clone(), v.clone()));
        }
    }
    let (pfx, local) = match e.name.split_once(':') {
        Some((p, l)) => (p.to_string(), l.to_string()),
        None => (String::new(), e.name.clone()),
    };
    let ns = scope.iter().rev().find(|(p, _)| *p == pfx).map(|(_, u)| u.clone()).unwrap_or_default();
    let kids = e
        .kids
        .iter()
        .map(|k| match k {
            PNode::Elem(c) => to_node(c, &scope, tokens),
            PNode::Text(t) => Node::Text(t.clone()),
        })
        .collect();
    Node::Elem(Elem { ns, name: local.clone(), attrs, kids, token: tokens.contains(&local.as_str()) })
}

/// Re-serialise a well-formed message (without delimiter) in another, information-equivalent
/// style; `tokens` names the elements whose text is a token (may be padded).
pub fn restyle(xml: &str, st: &Style, tokens: &[&str]) -> Result<String, String> {
    let root = parse_document(xml)?;
    let node = to_node(&root, &[], tokens);
    let mut s = render(&node, st);
    s.truncate(s.len() - EOM.len());
    Ok(s)
}

// ---------------------------------------------------------------------------------------------
// strict well-formedness (XML 1.0, no DTD): one root element, matching tags, quoted attributes,
// no duplicate attributes, only predefined / numeric entity references, no '<' in attribute
// values, no "]]>" in character data.

#[derive(Debug, Clone)]
pub struct PElem {
    pub name: String,
    pub attrs: Vec<(String, String)>,
    pub kids: Vec<PNode>,
}
#[derive(Debug, Clone)]
pub enum PNode {
    Elem(PElem),
    Text(String),
}

fn name_ok(n: &str) -> bool {
    let mut cs = n.chars();
    match cs.next() {
        Some(c) if c.is_alphabetic() || c == '_' || c == ':' => {}
        _ => return false,
    }
    cs.all(|c| c.is_alphanumeric() || "_:-.".contains(c))
}

fn unescape_strict(s: &str) -> Result<String, String> {
    let mut out = String::new();
    let mut rest = s;
    while let Some(k) = rest.find('&') {
        out.push_str(&rest[..k]);
        let tail = &rest[k + 1..];
        let end = tail.find(';').ok_or("'&' without ';'")?;
        let ent = &tail[..end];
        let c = match ent {
            "lt" => '<',
            "gt" => '>',
            "amp" => '&',
            "quot" => '"',
            "apos" => '\'',
            e if e.starts_with("#x") => char::from_u32(u32::from_str_radix(&e[2..], 16).map_err(|_| "bad char ref")?).ok_or("bad char ref")?,
            e if e.starts_with('#') => char::from_u32(e[1..].parse::<u32>().map_err(|_| "bad char ref")?).ok_or("bad char ref")?,
            e => return Err(format!("unknown entity &{e};")),
        };
        out.push(c);
        rest = &tail[end + 1..];
    }
    out.push_str(rest);
    Ok(out)
}

fn parse_el(s: &str, i: &mut usize) -> Result<PElem, String> {
    let b = s.as_bytes();
    if b.get(*i) != Some(&b'<') {
        return Err("expected '<'".into());
    }
    *i += 1;
    let st = *i;
    while *i < b.len() && !b" \t\r\n/>".contains(&b[*i]) {
        *i += 1;
    }
    let name = s[st..*i].to_string();
    if !name_ok(&name) {
        return Err(format!("bad element name {name:?}"));
    }
    let mut attrs: Vec<(String, String)> = Vec::new();
    loop {
        let ws_start = *i;
        while *i < b.len() && b" \t\r\n".contains(&b[*i]) {
            *i += 1;
        }
        match b.get(*i) {
            None => return Err("eof in tag".into()),
            Some(b'/') => {
                if b.get(*i + 1) != Some(&b'>') {
                    return Err("bad empty tag".into());
                }
                *i += 2;
                return Ok(PElem { name, attrs, kids: vec![] });
            }
            Some(b'>') => {
                *i += 1;
                break;
            }
            Some(_) => {
                if ws_start == *i {
                    return Err("attribute not preceded by white space".into());
                }
                let ks = *i;
                while *i < b.len() && b[*i] != b'=' && !b" \t\r\n>/".contains(&b[*i]) {
                    *i += 1;
                }
                let key = s[ks..*i].to_string();
                if !name_ok(&key) {
                    return Err(format!("bad attribute name {key:?}"));
                }
                while *i < b.len() && b" \t\r\n".contains(&b[*i]) {
                    *i += 1;
                }
                if b.get(*i) != Some(&b'=') {
                    return Err("attribute without value".into());
                }
                *i += 1;
                while *i < b.len() && b" \t\r\n".contains(&b[*i]) {
                    *i += 1;
                }
                let q = *b.get(*i).ok_or("eof")?;
                if q != b'"' && q != b'\'' {
                    return Err("unquoted attribute value".into());
                }
                *i += 1;
                let vs = *i;
                while *i < b.len() && b[*i] != q {
                    if b[*i] == b'<' {
                        return Err("'<' in attribute value".into());
                    }
                    *i += 1;
                }
                if *i >= b.len() {
                    return Err("unterminated attribute value".into());
                }
                let val = unescape_strict(&s[vs..*i])?;
                *i += 1;
                if attrs.iter().any(|(k, _)| *k == key) {
                    return Err(format!("duplicate attribute {key}"));
                }
                attrs.push((key, val));
            }
        }
    }
    let mut kids = Vec::new();
    loop {
        if *i >= b.len() {
            return Err(format!("eof inside <{name}>"));
        }
        if b[*i] == b'<' {
            if s[*i..].starts_with("<!--") {
                let end = s[*i + 4..].find("-->").ok_or("unterminated comment")?;
                if s[*i + 4..*i + 4 + end].contains("--") {
                    return Err("'--' inside comment".into());
                }
                *i += 4 + end + 3;
                continue;
            }
            if s[*i..].starts_with("<![CDATA[") {
                let end = s[*i + 9..].find("]]>").ok_or("unterminated CDATA")?;
                kids.push(PNode::Text(s[*i + 9..*i + 9 + end].to_string()));
                *i += 9 + end + 3;
                continue;
            }
            if s[*i..].starts_with("<?") {
                let end = s[*i..].find("?>").ok_or("unterminated PI")?;
                *i += end + 2;
                continue;
            }
            if b.get(*i + 1) == Some(&b'/') {
                let ns = *i + 2;
                let end = s[ns..].find('>').ok_or("unterminated end tag")? + ns;
                if s[ns..end].trim_end() != name {
                    return Err(format!("end tag </{}> does not match <{name}>", &s[ns..end]));
                }
                *i = end + 1;
                return Ok(PElem { name, attrs, kids });
            }
            kids.push(PNode::Elem(parse_el(s, i)?));
        } else {
            let ts = *i;
            while *i < b.len() && b[*i] != b'<' {
                *i += 1;
            }
            let raw = &s[ts..*i];
            if raw.contains("]]>") {
                return Err("']]>' in character data".into());
            }
            if raw.chars().any(|c| (c as u32) < 0x20 && !"\t\r\n".contains(c)) {
                return Err("control character in character data".into());
            }
            kids.push(PNode::Text(unescape_strict(raw)?));
        }
    }
}

/// Parse a whole document (optionally preceded by an XML declaration / comments).
pub fn parse_document(s: &str) -> Result<PElem, String> {
    let mut i = 0usize;
    let b = s.as_bytes();
    loop {
        while i < b.len() && b" \t\r\n".contains(&b[i]) {
            i += 1;
        }
        if s[i..].starts_with("<?") {
            i += s[i..].find("?>").ok_or("unterminated declaration")? + 2;
        } else if s[i..].starts_with("<!--") {
            i += s[i..].find("-->").ok_or("unterminated comment")? + 3;
        } else {
            break;
        }
    }
    let root = parse_el(s, &mut i)?;
    let rest = s[i..].trim();
    if !rest.is_empty() && !rest.starts_with("<!--") {
        return Err(format!("content after the root element: {:?}", rest.chars().take(30).collect::<String>()));
    }
    Ok(root)
}

impl PElem {
    pub fn text(&self) -> String {
        self.kids.iter().map(|k| if let PNode::Text(t) = k { t.clone() } else { String::new() }).collect()
    }
    pub fn find(&self, name: &str) -> Option<&PElem> {
        if self.name == name || self.name.ends_with(&format!(":{name}")) {
            return Some(self);
        }
        for k in &self.kids {
            if let PNode::Elem(e) = k {
                if let Some(f) = e.find(name) {
                    return Some(f);
                }
            }
        }
        None
    }
    pub fn attr(&self, n: &str) -> Option<&str> {
        self.attrs.iter().find(|(k, _)| k == n).map(|(_, v)| v.as_str())
    }
}
