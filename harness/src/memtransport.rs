//! In-memory `Transport` whose both directions are controlled by the harness.
//!
//! * server -> client: a queue of whole messages (each already terminated by the
//!   end-of-message delimiter); `recv()` pops one or stays pending; closing the
//!   transport makes `recv()` fail once the queue is empty.
//! * client -> server: every `send()` is recorded.  The send side can be put in
//!   `Before` mode (the call stays pending *before* the data is delivered) or `After`
//!   mode (the data is delivered to the "server", then the call stays pending until
//!   released) so that a caller can be suspended inside `send()` on either side of
//!   the moment the request becomes visible to the peer.
//!
//! Both handles are cancel-safe: dropping a pending `recv()`/`send()` future loses
//! nothing (an `After`-mode send that was already delivered stays delivered).
use std::{
    collections::VecDeque,
    future::poll_fn,
    io,
    sync::{Arc, Mutex},
    task::{Poll, Waker},
};

use async_trait::async_trait;
use bytes::Bytes;
use netconf::{
    transport::{RecvHandle, SendHandle, Transport},
    Error,
};

#[derive(Debug, Clone, Copy, PartialEq, Eq)]
pub enum SendMode {
    Free,
    Before,
    After,
}

#[derive(Debug)]
struct Inner {
    inbox: VecDeque<Bytes>,
    closed: bool,
    send_closed: bool,
    recv_waker: Option<Waker>,
    recv_waiting: bool,
    recv_calls: u64,
    delivered: u64,
    sent: Vec<Bytes>,
    send_mode: SendMode,
    send_waker: Option<Waker>,
    send_waiting: bool,
    /// number of `After`-mode sends that were delivered but not yet released
    release_tokens: u64,
}

#[derive(Debug, Clone)]
pub struct MemCtl {
    inner: Arc<Mutex<Inner>>,
}

#[derive(Debug)]
pub struct MemTransport {
    inner: Arc<Mutex<Inner>>,
}

pub fn mem_transport() -> (MemTransport, MemCtl) {
    let inner = Arc::new(Mutex::new(Inner {
        inbox: VecDeque::new(),
        closed: false,
        send_closed: false,
        recv_waker: None,
        recv_waiting: false,
        recv_calls: 0,
        delivered: 0,
        sent: Vec::new(),
        send_mode: SendMode::Free,
        send_waker: None,
        send_waiting: false,
        release_tokens: 0,
    }));
    (
        MemTransport {
            inner: inner.clone(),
        },
        MemCtl { inner },
    )
}

impl MemCtl {
    /// Queue one whole server message (must include the delimiter).
    pub fn push(&self, msg: impl Into<Bytes>) {
        let mut g = self.inner.lock().unwrap();
        g.inbox.push_back(msg.into());
        if let Some(w) = g.recv_waker.take() {
            w.wake();
        }
    }
    /// Peer closes: pending and future receives fail once the queue is drained; sends fail.
    pub fn close(&self) {
        let mut g = self.inner.lock().unwrap();
        g.closed = true;
        g.send_closed = true;
        if let Some(w) = g.recv_waker.take() {
            w.wake();
        }
        if let Some(w) = g.send_waker.take() {
            w.wake();
        }
    }
    pub fn set_send_mode(&self, mode: SendMode) {
        let mut g = self.inner.lock().unwrap();
        g.send_mode = mode;
        if mode == SendMode::Free {
            g.release_tokens = 0;
            if let Some(w) = g.send_waker.take() {
                w.wake();
            }
        }
    }
    pub fn send_mode(&self) -> SendMode {
        self.inner.lock().unwrap().send_mode
    }
    /// Messages the client has handed to the transport so far (delivered to the "server").
    pub fn sent(&self) -> Vec<Bytes> {
        self.inner.lock().unwrap().sent.clone()
    }
    pub fn sent_len(&self) -> usize {
        self.inner.lock().unwrap().sent.len()
    }
    /// Is a `recv()` call currently parked on an empty queue?
    pub fn recv_waiting(&self) -> bool {
        self.inner.lock().unwrap().recv_waiting
    }
    pub fn send_waiting(&self) -> bool {
        self.inner.lock().unwrap().send_waiting
    }
    /// Number of messages handed to the session layer so far.
    pub fn delivered(&self) -> u64 {
        self.inner.lock().unwrap().delivered
    }
    pub fn inbox_len(&self) -> usize {
        self.inner.lock().unwrap().inbox.len()
    }
}

impl Transport for MemTransport {
    type SendHandle = MemSender;
    type RecvHandle = MemReceiver;
    fn split(self) -> (MemSender, MemReceiver) {
        (
            MemSender {
                inner: self.inner.clone(),
            },
            MemReceiver { inner: self.inner },
        )
    }
}

#[derive(Debug)]
pub struct MemSender {
    inner: Arc<Mutex<Inner>>,
}

#[derive(Debug)]
pub struct MemReceiver {
    inner: Arc<Mutex<Inner>>,
}

fn closed_err() -> Error {
    Error::Transport(io::Error::new(
        io::ErrorKind::UnexpectedEof,
        "verif: peer closed the in-memory transport",
    ))
}

#[async_trait]
impl SendHandle for MemSender {
    async fn send(&mut self, data: Bytes) -> Result<(), Error> {
        let mut delivered = false;
        let inner = self.inner.clone();
        let mut data = Some(data);
        poll_fn(move |cx| {
            let mut g = inner.lock().unwrap();
            if g.send_closed && !delivered {
                g.send_waiting = false;
                return Poll::Ready(Err(closed_err()));
            }
            match g.send_mode {
                SendMode::Free => {
                    if !delivered {
                        let d = data.take().unwrap();
                        g.sent.push(d);
                    }
                    g.send_waiting = false;
                    Poll::Ready(Ok(()))
                }
                SendMode::Before => {
                    if delivered {
                        // mode switched After -> Before while parked: treat as released
                        g.send_waiting = false;
                        return Poll::Ready(Ok(()));
                    }
                    g.send_waiting = true;
                    g.send_waker = Some(cx.waker().clone());
                    Poll::Pending
                }
                SendMode::After => {
                    if !delivered {
                        let d = data.take().unwrap();
                        g.sent.push(d);
                        delivered = true;
                    }
                    g.send_waiting = true;
                    g.send_waker = Some(cx.waker().clone());
                    Poll::Pending
                }
            }
        })
        .await
    }
}

impl Drop for MemSender {
    fn drop(&mut self) {
        // nothing: the controller keeps the record of what was sent
    }
}

#[async_trait]
impl RecvHandle for MemReceiver {
    async fn recv(&mut self) -> Result<Bytes, Error> {
        let inner = self.inner.clone();
        {
            inner.lock().unwrap().recv_calls += 1;
        }
        struct Unwait(Arc<Mutex<Inner>>);
        impl Drop for Unwait {
            fn drop(&mut self) {
                if let Ok(mut g) = self.0.lock() {
                    g.recv_waiting = false;
                }
            }
        }
        let _unwait = Unwait(inner.clone());
        poll_fn(move |cx| {
            let mut g = inner.lock().unwrap();
            if let Some(msg) = g.inbox.pop_front() {
                g.recv_waiting = false;
                g.delivered += 1;
                return Poll::Ready(Ok(msg));
            }
            if g.closed {
                g.recv_waiting = false;
                return Poll::Ready(Err(closed_err()));
            }
            g.recv_waiting = true;
            g.recv_waker = Some(cx.waker().clone());
            Poll::Pending
        })
        .await
    }
}
