//! Small helpers shared by the harness binaries.
use std::{
    future::Future,
    pin::Pin,
    sync::Arc,
    task::{Context, Poll, Wake, Waker},
};

pub const BASE_NS: &str = "urn:ietf:params:xml:ns:netconf:base:1.0";
pub const JUNOS_CAP: &str = "http://xml.juniper.net/netconf/junos/1.0";
pub const EOM: &str = "]]>]]>";

pub type LBoxFut<'a, T> = Pin<Box<dyn Future<Output = T> + Send + 'a>>;
pub type BoxFut<T> = LBoxFut<'static, T>;

struct Noop;
impl Wake for Noop {
    fn wake(self: Arc<Self>) {}
}
pub fn noop_waker() -> Waker {
    Waker::from(Arc::new(Noop))
}

/// Poll a boxed future once with a waker that does nothing.
pub fn poll_once<T>(fut: &mut LBoxFut<'_, T>) -> Poll<T> {
    let waker = noop_waker();
    let mut cx = Context::from_waker(&waker);
    fut.as_mut().poll(&mut cx)
}

/// A server `<hello>` with the given capability URIs.
pub fn server_hello(caps: &[&str], session_id: u32) -> String {
    let mut s = format!("<hello xmlns=\"{BASE_NS}\"><capabilities>");
    for c in caps {
        s.push_str(&format!("<capability>{}</capability>", xml_escape(c)));
    }
    s.push_str(&format!(
        "</capabilities><session-id>{session_id}</session-id></hello>{EOM}"
    ));
    s
}

pub fn xml_escape(s: &str) -> String {
    s.replace('&', "&amp;")
        .replace('<', "&lt;")
        .replace('>', "&gt;")
        .replace('"', "&quot;")
}

/// Classify a library error into the coarse classes used by the specification.
pub fn err_class(e: &netconf::Error) -> &'static str {
    use netconf::Error as E;
    match e {
        E::RequestNotFound { .. } => "notfound",
        E::RequestComplete => "complete",
        E::MessageIdCollision { .. } => "collision",
        E::Transport(_) | E::DequeueMessage | E::EnqueueMessage(_) => "transport",
        E::SshTransport(_) | E::TlsTransport(_) => "transport",
        E::ReadMessage(_) => "read",
        E::WriteMessage(_) => "write",
        E::RpcError(_) => "rpcerror",
        E::VersionNegotiation => "version",
        _ => "local",
    }
}

/// Extract all `message-id="N"` values of a request.
pub fn message_id_of(req: &[u8]) -> Option<u64> {
    let s = String::from_utf8_lossy(req);
    let k = s.find("message-id=\"")?;
    let rest = &s[k + 12..];
    let e = rest.find('"')?;
    rest[..e].parse().ok()
}
