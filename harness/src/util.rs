//! Small helpers shared by the harness binaries.
use std::{
    future::Future,
    pin::Pin,
    sync::Arc,
    task::{Context, Poll, Wake, Waker},
};

pub const BASE_NS: &str = "urn:ietf:params:xml:ns:netconf:base:1.0";
pub const JUNOS_CAP: &str = "http://xml.juniper.net/netconf/junos/1.0";
pub const EOM: &str = "]]>]]>";

pub type LBoxFut<'a, T> = Pin<Box<dyn Future<Output = T> + Send + 'a>>;
pub type BoxFut<T> = LBoxFut<'static, T>;

struct Noop;
impl Wake for Noop {
    fn wake(self: Arc<Self>) {}
}
pub fn noop_waker() -> Waker {
    Waker::from(Arc::new(Noop))
}

thread_local! {
    /// The runtime of the synchronous drivers.  The library is free to spawn tasks, use timers or channels
    /// (a background reader task, for instance): everything the harness polls is polled inside this runtime's
    /// context, and whatever the library spawned runs in `settle()`.
    static RT: tokio::runtime::Runtime = tokio::runtime::Builder::new_current_thread()
        .enable_all()
        .build()
        .expect("harness runtime");
}

/// Let everything the library runs in the background (spawned tasks, timers that are due) make progress until
/// it is idle again.  No-op when called from inside another runtime (the multi-threaded drivers).
pub fn settle() {
    if tokio::runtime::Handle::try_current().is_ok() {
        return;
    }
    RT.with(|rt| {
        rt.block_on(async {
            for _ in 0..6 {
                tokio::task::yield_now().await;
            }
        });
    });
}

/// Poll a boxed future once with a waker that does nothing (the harness decides itself what to poll next),
/// inside the harness runtime; background work of the library runs before and after the poll.
pub fn poll_once<T>(fut: &mut LBoxFut<'_, T>) -> Poll<T> {
    let waker = noop_waker();
    let mut cx = Context::from_waker(&waker);
    if tokio::runtime::Handle::try_current().is_ok() {
        return fut.as_mut().poll(&mut cx);
    }
    settle();
    let r = RT.with(|rt| {
        let _guard = rt.enter();
        fut.as_mut().poll(&mut cx)
    });
    settle();
    r
}

/// Run `f` (which creates or drops library objects) inside the harness runtime's context.
pub fn in_runtime<R>(f: impl FnOnce() -> R) -> R {
    if tokio::runtime::Handle::try_current().is_ok() {
        return f();
    }
    let r = RT.with(|rt| {
        let _guard = rt.enter();
        f()
    });
    settle();
    r
}

/// A server `<hello>` with the given capability URIs.
pub fn server_hello(caps: &[&str], session_id: u32) -> String {
    let mut s = format!("<hello xmlns=\"{BASE_NS}\"><capabilities>");
    for c in caps {
        s.push_str(&format!("<capability>{}</capability>", xml_escape(c)));
    }
    s.push_str(&format!(
        "</capabilities><session-id>{session_id}</session-id></hello>{EOM}"
    ));
    s
}

pub fn xml_escape(s: &str) -> String {
    s.replace('&', "&amp;")
        .replace('<', "&lt;")
        .replace('>', "&gt;")
        .replace('"', "&quot;")
}

/// Classify a library error into the coarse classes used by the specification.
pub fn err_class(e: &netconf::Error) -> &'static str {
    use netconf::Error as E;
    match e {
        E::RequestNotFound { .. } => "notfound",
        E::RequestComplete => "complete",
        E::MessageIdCollision { .. } => "collision",
        E::Transport(_) | E::DequeueMessage | E::EnqueueMessage(_) => "transport",
        E::SshTransport(_) | E::TlsTransport(_) => "transport",
        E::ReadMessage(_) => "read",
        E::WriteMessage(_) => "write",
        E::RpcError(_) => "rpcerror",
        E::VersionNegotiation => "version",
        _ => "local",
    }
}

/// Extract all `message-id="N"` values of a request.
pub fn message_id_of(req: &[u8]) -> Option<u64> {
    let s = String::from_utf8_lossy(req);
    let k = s.find("message-id=\"")?;
    let rest = &s[k + 12..];
    let e = rest.find('"')?;
    rest[..e].parse().ok()
}

/// A child process of a harness must not outlive it: if the check is stopped from outside (a time limit of whoever runs
/// it), the code under test would otherwise go on running on its own - and some of it never ends by itself.
pub fn die_with_parent_std(cmd: &mut std::process::Command) {
    use std::os::unix::process::CommandExt as _;
    unsafe {
        cmd.pre_exec(|| {
            libc::prctl(libc::PR_SET_PDEATHSIG, libc::SIGKILL);
            Ok(())
        });
    }
}

pub fn die_with_parent(cmd: &mut tokio::process::Command) {
    unsafe {
        cmd.pre_exec(|| {
            libc::prctl(libc::PR_SET_PDEATHSIG, libc::SIGKILL);
            Ok(())
        });
    }
}
