//! Conformance harness for the bgpfu-rs TLA+ specification.
pub mod memtransport;
pub mod util;
pub mod wsess;
pub mod fakes;
pub mod xmlgen;
