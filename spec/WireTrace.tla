----------------------------- MODULE WireTrace -----------------------------
(* Monitor over what the real library did with the cases of WireGen (one     *)
(* ndjson line per executed case): the relations of Wire.tla are evaluated   *)
(* on every line; breaches are accumulated in `viol` (one record per rule    *)
(* and discriminator, with the first case and a count).                      *)
EXTENDS Wire, Json, IOUtils, TLCExt, Integers

Rec == ndJsonDeserialize(IOEnv.TRACE)
Prop == IOEnv.PROP
VARIABLES l, viol, stats
tvars == <<l, viol, stats>>

Has(e, f) == f \in DOMAIN e
SeqToSet(q) == {q[k] : k \in 1..Len(q)}

V(rule, disc, e) == [prop |-> Prop, rule |-> rule, disc |-> disc, case |-> e.case, n |-> 1, info |-> ""]
VI(rule, disc, info, e) == [prop |-> Prop, rule |-> rule, disc |-> disc, case |-> e.case, n |-> 1, info |-> info]

RECURSIVE Merge(_, _)
Merge(vs, new) ==
  IF new = {} THEN vs
  ELSE LET v == CHOOSE x \in new : TRUE
           same == {w \in vs : w.rule = v.rule /\ w.disc = v.disc}
       IN  IF same = {} THEN Merge(vs \cup {v}, new \ {v})
           ELSE LET w == CHOOSE x \in same : TRUE
                IN  Merge((vs \ {w}) \cup {[w EXCEPT !.n = @ + 1]}, new \ {v})

---------------------------------------------------------------------------
(* C08 *)
RECURSIVE JoinStr(_)
JoinStr(q) == IF q = <<>> THEN "" ELSE q[1] \o (IF Len(q) > 1 THEN "," ELSE "") \o JoinStr(Tail(q))

C08Viol(e) ==
  IF e.outcome \in {"panic", "hang", "hang-in-rpc"}
  THEN {V("PanicOrHang", "type=" \o e.type \o " outcome=" \o e.outcome, e)}
  ELSE LET r == VerdictRule(e.type, e.top, e.inner, e.outcome, e.errs, "same" \in DOMAIN e /\ e.same) IN
       IF r = "none" THEN {}
       ELSE {VI(r, "type=" \o e.type, "op=" \o e.op \o " top=[" \o JoinStr(e.top) \o "] inner=[" \o JoinStr(e.inner) \o "]", e)}
(* one discriminator per (rule, reply type): the token sequence of the first failing case is kept *)
C08Key(v) == v

---------------------------------------------------------------------------
(* C09 *)
WhyNot(caps, c) ==
  IF c.op \in {"commit", "discard-changes"} /\ "cand" \notin caps THEN "op-needs-candidate"
  ELSE IF c.op = "cancel-commit" /\ "cc11" \notin caps THEN "op-needs-confirmed-commit-1.1"
  ELSE IF c.op = "validate" /\ ~AnyOf({"val10", "val11"}, caps) THEN "op-needs-validate"
  ELSE IF c.op \in JunosOps /\ "junos" \notin caps THEN "op-needs-junos"
  ELSE IF c.src \in Datastores /\ ~(AsSource(c.src) \subseteq caps) THEN "source-" \o c.src
  ELSE IF c.op \in {"edit-config", "copy-config", "delete-config"} /\ c.tgt \in Datastores
          /\ ~(AsTarget(c.tgt) \subseteq caps) THEN "target-" \o c.tgt
  ELSE IF c.op \in {"lock", "unlock"} /\ ~(AsSource(c.tgt) \subseteq caps) THEN "lock-target-" \o c.tgt
  ELSE IF c.filt = "xpath" /\ "xpath" \notin caps THEN "filter-xpath"
  ELSE IF c.scheme # "none" /\ SchemeCap(c.scheme) \notin caps THEN "url-scheme-" \o c.scheme
  ELSE IF (c.confirmed \/ c.timeout) /\ ~AnyOf({"cc10", "cc11"}, caps) THEN "confirmed"
  ELSE IF (c.persist \/ c.persistid) /\ "cc11" \notin caps THEN "persist"
  ELSE IF c.testopt # "none" /\ ~AnyOf({"val10", "val11"}, caps) THEN "test-option"
  ELSE IF c.testopt = "test-only" /\ "val11" \notin caps THEN "test-option-test-only"
  ELSE IF c.erropt = "rollback-on-error" /\ "roe" \notin caps THEN "error-option-rollback-on-error"
  ELSE "permitted"

What(c) == c.op \o (IF c.tgt # "none" THEN " tgt=" \o c.tgt ELSE "") \o (IF c.src # "none" THEN " src=" \o c.src ELSE "")
           \o (IF c.filt # "none" THEN " filter=" \o c.filt ELSE "") \o (IF c.scheme # "none" THEN " scheme=" \o c.scheme ELSE "")
           \o (IF c.confirmed THEN " confirmed" ELSE "") \o (IF c.timeout THEN " timeout" ELSE "")
           \o (IF c.persist THEN " persist" ELSE "") \o (IF c.persistid THEN " persist-id" ELSE "")
           \o (IF c.testopt # "none" THEN " test-option=" \o c.testopt ELSE "")
           \o (IF c.erropt # "none" THEN " error-option=" \o c.erropt ELSE "")

C09Viol(e) ==
  LET caps == SeqToSet(e.caps)
      why  == WhyNot(caps, e.c)
      ok   == Permitted(caps, e.c)
  IN  IF (why = "permitted") # ok THEN {V("SpecInconsistent", "Permitted vs WhyNot", e)}
      ELSE IF e.local = "panic" THEN {V("Panic", "op=" \o e.c.op, e)}
      (* what the request on the wire uses (read off the bytes), whatever the caller asked for *)
      ELSE IF e.sent /\ Has(e, "d") /\ ~Permitted(caps, e.d)
           THEN {V("SentWithoutCapability", "op=" \o e.d.op \o " on-the-wire missing=" \o WhyNot(caps, e.d), e)}
      ELSE IF ~e.c.complete THEN {}       \* a request with a mandatory parameter left out may be refused or completed
      ELSE IF e.sent /\ ~ok THEN {V("SentWithoutCapability", "op=" \o e.c.op \o " missing=" \o why, e)}
      ELSE IF ~e.sent /\ ok THEN {V("RefusedThoughPermitted", What(e.c), e)}
      ELSE IF e.sent /\ ~e.wire_ok THEN {V("WireDoesNotCarryContent", What(e.c), e)}
      ELSE {}

---------------------------------------------------------------------------
(* C12 *)
SidText(s) == CASE s = "1" -> "1" [] s = "max" -> "4294967295" [] OTHER -> "?"
C12Viol(e) ==
  LET c == e.c
      base == SeqToSet(c.base)
      cb == SeqToSet(e.client_base)
      should == ShouldEstablish(base, c.sid, c.shape, cb)
      what == "sid=" \o c.sid \o " shape=" \o c.shape \o " ns=" \o c.ns \o " order=" \o c.order
  IN  IF e.established \in {"panic", "hang"} THEN {V("PanicOrHang", e.established \o " " \o what, e)}
      ELSE IF e.established = "yes" /\ ~should THEN {V("EstablishedButShouldNot", "sid=" \o c.sid \o " shape=" \o c.shape, e)}
      ELSE IF e.established = "no" /\ should THEN {V("RefusedButShouldEstablish", what, e)}
      ELSE IF e.established = "yes" THEN
           (IF e.version # VMax(base \cap cb) THEN {V("NotHighestCommonVersion", "got=" \o e.version, e)} ELSE {})
           \cup (IF e.sid # SidText(c.sid) THEN {V("WrongSessionIdReported", "sid=" \o c.sid, e)} ELSE {})
           \cup (IF SeqToSet(e.caps) = SeqToSet(e.hello_caps) THEN {}
                 ELSE IF SeqToSet(e.caps_unescaped) = SeqToSet(e.hello_caps)
                 THEN {V("CapabilityReportedWithXmlEscapingLeftIn", "capability URI containing '&'", e)}
                 ELSE {V("WrongCapabilitiesReported", "ns=" \o c.ns, e)})
           \cup (IF e.framing # FramingOf(e.version)
                 THEN {V("FramingNotAsNegotiated", "negotiated=" \o e.version \o " framing=" \o e.framing, e)} ELSE {})
      ELSE {}

---------------------------------------------------------------------------
(* C10: a request that reaches the wire is one well-formed document, followed by exactly one   *)
(* delimiter that occurs nowhere else, and the server reads the caller's value back unchanged   *)
C10Viol(e) ==
  IF e.local = "panic" THEN {V("Panic", "param=" \o e.param, e)}
  ELSE IF ~e.sent THEN {}
  ELSE IF e.delims # 1 \/ ~e.delim_at_end
       THEN {VI("DelimiterInsideMessage", "param=" \o e.param, "classes=" \o JoinStr(e.classes), e)}
  ELSE IF ~e.wellformed THEN {VI("RequestNotWellFormed", "param=" \o e.param, "classes=" \o JoinStr(e.classes) \o " why=" \o e.why, e)}
  ELSE IF e.recovered # e.expected
       THEN {VI("ValueNotCarriedUnchanged", "param=" \o e.param, "classes=" \o JoinStr(e.classes) \o " got=" \o e.recovered, e)}
  ELSE {}

---------------------------------------------------------------------------
(* C14: whatever the server sends, the affected call ends with an error or a value, nothing       *)
(* panics or hangs, and the other outstanding requests still get their own replies.  gid is the    *)
(* message-id readable from the reply's header alone (well-formed start tag in the base namespace  *)
(* of a valid UTF-8 message), -1 if there is none: 2 = the request the garbage answers.            *)
NErr(res) == Cardinality({i \in 1..Len(res) : res[i] \notin {"ok", "pending", "notsent"}})
C14Viol(e) ==
  LET what == "message=" \o e.c.tmpl \o " mutation=" \o e.c.op IN
  IF Has(e, "hang") THEN {V("CallNeverResolves", what \o " (the thread polling the call never came back)", e)}
  ELSE IF Has(e, "panic") THEN {V("Panic", what, e)}
  ELSE IF Has(e, "hello") THEN (IF e.hello = "hang" THEN {V("HelloNeverResolves", what, e)} ELSE {})
  ELSE IF \E i \in 1..Len(e.res) : e.res[i] = "pending" THEN {V("CallNeverResolves", what, e)}
  ELSE IF e.gid = 2 /\ (e.res[1] # "ok" \/ e.res[3] # "ok")
       THEN {V("OtherRequestsDisturbed", what \o " (header names its own request)", e)}
  ELSE IF e.gid = -1 /\ NErr(e.res) > 1
       THEN {V("OtherRequestsDisturbed", what \o " (unattributable garbage failed more than one call)", e)}
  ELSE IF e.gid = 900 /\ NErr(e.res) > 1
       THEN {V("OtherRequestsDisturbed", what \o " (a reply to a request nobody made failed more than one call)", e)}
  ELSE {}

---------------------------------------------------------------------------
(* C13: every information-equivalent serialisation of a message is parsed to the same outcome *)
C13Viol(e) ==
  IF e.digest = e.base THEN {}
  ELSE {VI(IF e.digest = "panic" THEN "Panic" ELSE "OutcomeDependsOnSerialisation",
           "message=" \o e.tmpl \o (IF e.single_fail # <<>> THEN " rewrite=" \o e.single_fail[1]
                                     ELSE " rewrites=" \o JoinStr(e.flags)),
           "base: " \o e.base \o " / variant: " \o e.digest, e)}

---------------------------------------------------------------------------
LineViol(e) ==
  CASE e.ev = "c08" -> C08Viol(e)
    [] e.ev = "c09" -> C09Viol(e)
    [] e.ev = "c12" -> C12Viol(e)
    [] e.ev = "c13" -> C13Viol(e)
    [] e.ev = "c10" -> C10Viol(e)
    [] e.ev = "c14" -> C14Viol(e)
    [] OTHER -> {V("UnknownEvent", e.ev, e)}

Nontrivial(e) ==
  CASE e.ev = "c08" -> e.outcome \in {"ok", "rpcerror"}
    [] e.ev = "c09" -> e.sent
    [] e.ev = "c12" -> e.established = "yes"
    [] e.ev = "c13" -> e.flags # <<>>
    [] e.ev = "c10" -> e.sent /\ e.classes # <<>>
    [] e.ev = "c14" -> e.c.op # "none"
    [] OTHER -> FALSE

TInit == l = 1 /\ viol = {} /\ stats = [lines |-> 0, nontrivial |-> 0]
TNext == /\ l <= Len(Rec) /\ l' = l + 1
         /\ viol' = Merge(viol, LineViol(Rec[l]))
         /\ stats' = [stats EXCEPT !.lines = @ + 1, !.nontrivial = IF Nontrivial(Rec[l]) THEN @ + 1 ELSE @]
TSpec == TInit /\ [][TNext]_tvars
Done == l > Len(Rec)
Report == Done => PrintT(<<"TRACE-RESULT", ToJson([lines |-> Len(Rec), stats |-> stats, viol |-> viol])>>)
Accepted == TLCGet("stats").diameter >= Len(Rec)
=============================================================================
