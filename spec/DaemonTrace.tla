---------------------------- MODULE DaemonTrace ----------------------------
(* Judge of the timelines recorded from the real daemon loop under virtual   *)
(* time (harness/src/bin/daemon.rs): the contract of Daemon.tla on the       *)
(* delays between runs, on SIGHUP and on SIGINT/SIGTERM.                     *)
EXTENDS Daemon, Json, IOUtils, TLCExt, Integers

Rec == ndJsonDeserialize(IOEnv.TRACE)
VARIABLES l, viol, stats, s
tvars == <<l, viol, stats, s>>

RECURSIVE Merge(_, _)
Merge(vs, new) ==
  IF new = {} THEN vs
  ELSE LET v == CHOOSE x \in new : TRUE
           same == {w \in vs : w.rule = v.rule /\ w.disc = v.disc}
       IN  IF same = {} THEN Merge(vs \cup {v}, new \ {v})
           ELSE LET w == CHOOSE x \in same : TRUE
                IN  Merge((vs \ {w}) \cup {[w EXCEPT !.n = @ + 1]}, new \ {v})
V(rule, disc, e) == [prop |-> "C19", rule |-> rule, disc |-> disc, case |-> e.case, n |-> 1, info |-> ""]
Cls(p) == IF p < MinBackoff THEN "period<60" ELSE IF p = MinBackoff THEN "period=60" ELSE "period>60"

S0 == [period |-> 0, runs |-> 0, running |-> FALSE, lastFinish |-> 0, lastOk |-> TRUE, nfail |-> 0, prevDelay |-> 0,
       hupAt |-> -1, killAt |-> -1, killDue |-> -1, exited |-> FALSE,
       race |-> FALSE,       \* the last signal became ready in the same poll as the timer: either may be served first
       raceRun |-> FALSE]    \* ... and the timer was: one run started at that instant

Step(st, e) ==
  CASE e.ev = "reset" -> S0
    [] e.ev = "cfg" -> [st EXCEPT !.period = e.period]
    [] e.ev = "start" -> [st EXCEPT !.running = TRUE, !.raceRun = st.race /\ ~st.raceRun /\ (e.t = st.killAt \/ e.t = st.hupAt), !.race = FALSE,
                                  (* the delay the next retry is compared with.  A run that was triggered by SIGHUP cut the  *)
                                  (* delay before it short: the delay that was scheduled then is not known, but it was at    *)
                                  (* least the one before (one minute after a first failure) - the streak of failures goes   *)
                                  (* on over a SIGHUP, and so does the growth of the delay                                   *)
                                  !.prevDelay = IF st.runs = 0 \/ st.lastOk THEN 0
                                                ELSE IF st.hupAt >= 0 THEN (IF st.nfail = 1 THEN MinBackoff ELSE st.prevDelay)
                                                ELSE e.t - st.lastFinish,
                                  (* a SIGHUP that raced with the timer may still be served after the timer's run *)
                                  !.hupAt = IF st.race /\ ~st.raceRun /\ e.t = st.hupAt THEN st.hupAt ELSE -1]
    [] e.ev = "finish" -> [st EXCEPT !.running = FALSE, !.runs = @ + 1, !.lastFinish = e.t, !.lastOk = e.ok,
                                   !.nfail = IF e.ok THEN 0 ELSE @ + 1,
                                   (* a signal that arrived while this run was in progress is due now: SIGHUP - a run    *)
                                   (* right behind this one; SIGINT / SIGTERM - exit (now, or when it arrived)           *)
                                   !.hupAt = IF st.hupAt >= 0 THEN e.t ELSE @,
                                   !.killDue = IF st.killAt >= 0 THEN e.t ELSE @]
    [] e.ev = "signal" -> LET r == "same_poll" \in DOMAIN e /\ e.same_poll IN
                          IF e.sig = "hup" THEN [st EXCEPT !.hupAt = e.t, !.race = r] ELSE [st EXCEPT !.killAt = e.t, !.race = r]
    [] e.ev = "exit" -> [st EXCEPT !.exited = TRUE]
    [] OTHER -> st

LineViol(st, e) ==
  CASE e.ev = "start" ->
         LET delay == e.t - st.lastFinish IN
         IF st.killAt >= 0 /\ st.race /\ ~st.raceRun /\ e.t = st.killAt THEN {}      \* the timer was served first, once
         ELSE IF st.killAt >= 0 THEN {V("RunStartedAfterTerminationSignal", Cls(st.period), e)}
         ELSE IF st.runs = 0 THEN {}
         ELSE IF st.hupAt >= 0 /\ st.raceRun /\ e.t = st.lastFinish THEN {}          \* the timer's run first, then the SIGHUP's
         ELSE IF st.hupAt >= 0 /\ ~st.raceRun THEN (IF e.t = st.hupAt THEN {} ELSE {V("SighupDidNotTriggerImmediateRun", Cls(st.period), e)})
         ELSE IF delay = 0 THEN {V("RunsFollowEachOtherWithoutDelay", Cls(st.period), e)}
         ELSE IF st.lastOk THEN (IF AfterSuccessOk(st.period, delay) THEN {} ELSE {V("PeriodNotRestoredAfterSuccess", Cls(st.period), e)})
         ELSE IF st.nfail = 1 /\ delay # MinBackoff THEN {V("FirstRetryNotAfterOneMinute", Cls(st.period), e)}
         ELSE IF st.nfail > 1 /\ delay < st.prevDelay THEN {V("RetryDelayDecreased", Cls(st.period), e)}
         ELSE IF delay > Cap(st.period) THEN {V("RetryDelayExceedsCap", Cls(st.period), e)}
         ELSE IF ~RetryDelayOk(st.period, st.nfail, st.prevDelay, delay) THEN {V("RetryDelayDoesNotGrow", Cls(st.period), e)}
         ELSE {}
    [] e.ev = "exit" ->
         (IF st.killAt < 0 THEN {V("ExitWithoutSignal", Cls(st.period), e)}
          ELSE IF st.raceRun /\ e.t = st.lastFinish THEN {}                            \* ... and the signal right after that run
          ELSE IF e.t # st.killAt /\ e.t # st.killDue THEN {V("TerminationSignalNotPrompt", Cls(st.period), e)}
          ELSE IF ~e.ok THEN {V("ExitNotClean", Cls(st.period), e)} ELSE {})
    [] e.ev = "end" ->
         (IF st.killAt >= 0 THEN {V("TerminationSignalIgnored", Cls(st.period), e)} ELSE {})
         \cup (IF st.hupAt >= 0 /\ ~st.raceRun THEN {V("SighupDidNotTriggerImmediateRun", Cls(st.period), e)} ELSE {})
    [] e.ev = "panic" -> {V("Panic", "", e)}
    [] OTHER -> {}

TInit == l = 1 /\ viol = {} /\ s = S0 /\ stats = [lines |-> 0, cases |-> 0, starts |-> 0, retries |-> 0, signals |-> 0]
TNext == /\ l <= Len(Rec) /\ l' = l + 1
         /\ LET e == Rec[l] IN
            /\ viol' = Merge(viol, LineViol(s, e))
            /\ s' = Step(s, e)
            /\ stats' = [stats EXCEPT !.lines = @ + 1, !.cases = IF e.ev = "reset" THEN @ + 1 ELSE @,
                            !.starts = IF e.ev = "start" THEN @ + 1 ELSE @,
                            !.retries = IF e.ev = "start" /\ ~s.lastOk /\ s.runs > 0 THEN @ + 1 ELSE @,
                            !.signals = IF e.ev = "signal" THEN @ + 1 ELSE @]
TSpec == TInit /\ [][TNext]_tvars
Done == l > Len(Rec)
Report == Done => PrintT(<<"TRACE-RESULT", ToJson([lines |-> Len(Rec), stats |-> stats, viol |-> viol])>>)
Accepted == TLCGet("stats").diameter >= Len(Rec)
=============================================================================
