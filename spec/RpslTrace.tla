----------------------------- MODULE RpslTrace -----------------------------
(* Judge of C11 / C17: what the real bgpfu command, library evaluator and     *)
(* agent computed for (database, expression, injected IRR errors), against    *)
(* Rpsl!Eval.  One ndjson line per evaluation; `pos` is its position in the   *)
(* sequence of evaluations on one connection (C17).                           *)
EXTENDS Rpsl, IrrdProto, Json, IOUtils, TLCExt, Integers

Rec == ndJsonDeserialize(IOEnv.TRACE)
VARIABLES l, viol, stats
tvars == <<l, viol, stats>>
Has(e, f) == f \in DOMAIN e
ToSet(q) == {q[k] : k \in 1..Len(q)}

RECURSIVE Merge(_, _)
Merge(vs, new) ==
  IF new = {} THEN vs
  ELSE LET v == CHOOSE x \in new : TRUE
           same == {w \in vs : w.rule = v.rule /\ w.disc = v.disc /\ w.prop = v.prop}
       IN  IF same = {} THEN Merge(vs \cup {v}, new \ {v})
           ELSE LET w == CHOOSE x \in same : TRUE
                IN  Merge((vs \ {w}) \cup {[w EXCEPT !.n = @ + 1]}, new \ {v})
V(prop, rule, disc, e) == [prop |-> prop, rule |-> rule, disc |-> disc, case |-> e.case, n |-> 1, info |-> e.expr_str]

(* JSON -> the shapes of Rpsl.tla *)
Atom(a) == <<a[1], a[2], a[3]>>
AtomSet(q) == {Atom(q[k]) : k \in 1..Len(q)}
RECURSIVE Expr(_)
Expr(j) ==
  CASE j.op \in {"asset", "as", "rset"} -> [op |-> j.op, name |-> j.name, rng |-> <<j.rng[1], j.rng[2]>>]
    [] j.op = "fset" -> [op |-> "fset", name |-> j.name]
    [] j.op = "lit" -> [op |-> "lit", atoms |-> AtomSet(j.atoms), rng |-> <<j.rng[1], j.rng[2]>>]
    [] OTHER -> [op |-> j.op, l |-> Expr(j.l), r |-> Expr(j.r)]
Db(j) == [asSets |-> [n \in DOMAIN j.asSets |-> [sets |-> ToSet(j.asSets[n].sets), items |-> ToSet(j.asSets[n].items)]],
          routes |-> [n \in DOMAIN j.routes |-> AtomSet(j.routes[n])],
          rtSets |-> [n \in DOMAIN j.rtSets |-> [sets |-> ToSet(j.rtSets[n].sets), items |-> AtomSet(j.rtSets[n].items)]],
          fltSets |-> [n \in DOMAIN j.fltSets |-> Expr(j.fltSets[n])]]
Errs(j) == [asSets |-> ToSet(j.asSets), ases |-> ToSet(j.ases), rtSets |-> ToSet(j.rtSets), fltSets |-> ToSet(j.fltSets)]

(* does the expression take the complement (AND NOT) of a set that contains IPv6 prefixes? *)
RECURSIVE ComplementsV6(_, _, _)
ComplementsV6(x, db, errs) ==
  IF x.op \notin {"and", "or", "andnot"} THEN FALSE
  ELSE \/ ComplementsV6(x.l, db, errs) \/ ComplementsV6(x.r, db, errs)
       \/ (x.op = "andnot" /\ \E a \in Eval(x.r, db, errs, 3) : a[1] = 6)

(* ---- the IRRd protocol model (IrrdProto / Irrd.tla) against the fake IRRd's log of this evaluation ------------ *)
(* resolver calls an evaluation makes, in order: operands left to right, a failed operand ends the evaluation,   *)
(* a resolved filter-set is followed by the calls of its stored expression                                       *)
RECURSIVE CallsOf(_, _, _, _, _)
CallsOf(x, db, errs, nm, depth) ==
  CASE x.op = "asset" -> [calls |-> <<[k |-> "asset", n |-> nm[x.name]]>>, ok |-> x.name \in DOMAIN db.asSets /\ x.name \notin errs.asSets]
    [] x.op = "as" -> [calls |-> <<[k |-> "as", n |-> nm[x.name]]>>, ok |-> TRUE]
    [] x.op = "rset" -> [calls |-> <<[k |-> "rset", n |-> nm[x.name]]>>, ok |-> TRUE]
    [] x.op = "lit" -> [calls |-> <<>>, ok |-> TRUE]
    [] x.op = "fset" ->
         IF x.name \notin DOMAIN db.fltSets \/ x.name \in errs.fltSets \/ depth = 0
         THEN [calls |-> <<[k |-> "fset", n |-> nm[x.name]]>>, ok |-> TRUE]
         ELSE LET sub == CallsOf(db.fltSets[x.name], db, errs, nm, depth - 1)
              IN  [calls |-> <<[k |-> "fset", n |-> nm[x.name]]>> \o sub.calls, ok |-> sub.ok]
    [] OTHER -> LET lft == CallsOf(x.l, db, errs, nm, depth) IN
                IF ~lft.ok THEN lft
                ELSE LET rgt == CallsOf(x.r, db, errs, nm, depth) IN [calls |-> lft.calls \o rgt.calls, ok |-> rgt.ok]
AnswersOf(qlog) ==
  LET qs == {Q(qlog[k].c, qlog[k].n) : k \in 1..Len(qlog)} IN
  [q \in qs |-> LET k == CHOOSE j \in 1..Len(qlog) : Q(qlog[j].c, qlog[j].n) = q IN [st |-> qlog[k].st, items |-> qlog[k].items]]
RECURSIVE Concat(_)
Concat(ss) == IF ss = <<>> THEN <<>> ELSE Head(ss) \o Concat(Tail(ss))
PredictedQueries(e) ==
  LET A == AnswersOf(e.qlog)
      cs == CallsOf(Expr(e.expr), Db(e.db), Errs(e.errs), e.names, 3).calls
  IN  Concat([k \in 1..Len(cs) |-> QueriesOfA(A, cs[k])])
ObservedQueries(e) == [k \in 1..Len(e.qlog) |-> Q(e.qlog[k].c, e.qlog[k].n)]
(* the implementation-shaped model and the code disagree about which queries an evaluation sends: MODEL-DRIFT,  *)
(* reported, never a violation (the property does not say how the data is fetched)                               *)
Drifts(e) == Has(e, "qlog") /\ e.outcome # "panic" /\ PredictedQueries(e) # ObservedQueries(e)

(* a case whose expected output is stated literally (prefixes at the ends of the address space, outside the universe) *)
LiteralViol(e) ==
  LET got == ToSet(e.ranges)  want == ToSet(e.expect_ranges)  where == e.via \o " (ends of the address space)" IN
  IF e.outcome = "panic" THEN {V(e.prop, "Panic", where, e)}
  ELSE IF e.outcome = "hang" THEN {V(e.prop, "EvaluationDoesNotTerminate", where, e)}
  ELSE IF e.outcome # "ok" THEN {V(e.prop, "EvaluationFailedUnexpectedly", where, e)}
  ELSE IF got = want THEN {}
  ELSE {V(e.prop, IF got \subseteq want THEN "PrefixesMissing" ELSE "WrongPrefixes", where, e)}

LineViol(e) ==
  IF Has(e, "expect_ranges") THEN LiteralViol(e) ELSE
  LET want == Eval(Expr(e.expr), Db(e.db), Errs(e.errs), 3)
      prop == e.prop
      where == e.via \o (IF e.pos > 1 THEN " after-other-evaluations" ELSE "") IN
  IF e.outcome = "panic" THEN {V(prop, "Panic", where, e)}
  ELSE IF e.outcome = "hang" THEN
       {V(prop, "EvaluationDoesNotTerminate",
          IF ComplementsV6(Expr(e.expr), Db(e.db), Errs(e.errs)) THEN "complement-of-a-set-with-ipv6-prefixes" ELSE where, e)}
  ELSE IF want = Failed
  THEN (IF e.outcome = "ok" THEN {V(prop, "EvaluationSucceededAlthoughTheSetIsUnobtainable", where, e)} ELSE {})
  ELSE IF e.outcome # "ok" THEN {V(prop, "EvaluationFailedUnexpectedly", where, e)}
  ELSE IF AtomSet(e.atoms) # want THEN
         {V(prop, IF AtomSet(e.atoms) \subseteq want THEN "PrefixesMissing" ELSE "WrongPrefixes", where, e)}
  ELSE IF e.extra THEN {V(prop, "RangesBeyondTheDefinedSet", where, e)}
  ELSE {}

TInit == l = 1 /\ viol = {} /\ stats = [lines |-> 0, nonempty |-> 0, failed |-> 0, later |-> 0, qchecked |-> 0, drift |-> 0, driftcase |-> ""]
TNext == /\ l <= Len(Rec) /\ l' = l + 1
         /\ LET e == Rec[l] IN
            /\ viol' = Merge(viol, LineViol(e))
            /\ stats' = [stats EXCEPT !.lines = @ + 1, !.nonempty = IF e.outcome = "ok" /\ e.atoms # <<>> THEN @ + 1 ELSE @,
                                      !.failed = IF e.outcome # "ok" THEN @ + 1 ELSE @, !.later = IF e.pos > 1 THEN @ + 1 ELSE @,
                                      !.qchecked = IF Has(e, "qlog") THEN @ + 1 ELSE @,
                                      !.drift = IF Drifts(e) THEN @ + 1 ELSE @,
                                      !.driftcase = IF @ = "" /\ Drifts(e) THEN e.case ELSE @]
TSpec == TInit /\ [][TNext]_tvars
Done == l > Len(Rec)
Report == Done => PrintT(<<"TRACE-RESULT", ToJson([lines |-> Len(Rec), stats |-> stats, viol |-> viol])>>)
Accepted == TLCGet("stats").diameter >= Len(Rec)
=============================================================================
