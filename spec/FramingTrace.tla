---------------------------- MODULE FramingTrace ----------------------------
(* Judge of the executions on the real transports (harness/src/bin/framing). *)
(* One ndjson line = one case: what the peer sent (bodies, cut positions,    *)
(* close) and what establishing the session and every operation returned.    *)
(* The contract is computed from Framing!Messages over the symbol stream the *)
(* peer actually sent.                                                        *)
EXTENDS Framing, Json, IOUtils, TLCExt, Integers

Rec == ndJsonDeserialize(IOEnv.TRACE)
VARIABLES l, viol, stats
tvars == <<l, viol, stats>>
Has(e, f) == f \in DOMAIN e

RECURSIVE Merge(_, _)
Merge(vs, new) ==
  IF new = {} THEN vs
  ELSE LET v == CHOOSE x \in new : TRUE
           same == {w \in vs : w.rule = v.rule /\ w.disc = v.disc /\ w.prop = v.prop}
       IN  IF same = {} THEN Merge(vs \cup {v}, new \ {v})
           ELSE LET w == CHOOSE x \in same : TRUE
                IN  Merge((vs \ {w}) \cup {[w EXCEPT !.n = @ + 1]}, new \ {v})

V(prop, rule, e, what) == [prop |-> prop, rule |-> rule, disc |-> "transport=" \o e.transport \o " " \o what,
                           case |-> e.case, n |-> 1, info |-> ""]

RECURSIVE ConcatMsgs(_)
ConcatMsgs(bodies) == IF bodies = <<>> THEN <<>> ELSE Msg2(Head(bodies)) \o ConcatMsgs(Tail(bodies))
Prefix(s, n) == IF n < 0 \/ n >= Len(s) THEN s ELSE SubSeq(s, 1, n)

HelloStream == Msg2(<<>>)
CutKind(e) ==   \* where the cuts of the reply stream fall, for the discriminator
  IF e.cuts = <<>> THEN "uncut" ELSE "cut"

Hung(o) == o \in {"timeout", "killed"}

EstViol(e) ==
  IF e.hello_close # "none"
  THEN (IF Hung(e.established) THEN {V("C07", "HangWhenPeerClosesDuringHello", e, "close=" \o e.hello_close)}
        ELSE IF e.established = "yes" /\ Messages(Prefix(HelloStream, e.hello_close_at)) = <<>>
             THEN {V("C06", "EstablishedWithoutCompleteHello", e, "")} ELSE {})
  ELSE (IF e.established = "killed" /\ e.close # "none"
        (* the whole process had to be killed from outside: a receiver that never yields after the peer went away *)
        THEN {V("C07", "ProcessStuckAfterPeerClosed", e,
                "close=" \o e.close \o (IF Has(e, "cpu_ms") /\ e.cpu_ms > 5000 THEN " busy-loop" ELSE " asleep"))}
        ELSE IF Hung(e.established) THEN {V("C06", "HelloNotDelivered", e, IF e.hello_cuts = <<>> THEN "uncut" ELSE "cut")}
        ELSE IF e.established # "yes" THEN {V("C06", "SpuriousEstablishmentError", e, "")} ELSE {})

ResultViol(e) ==
  IF e.established # "yes" \/ e.hello_close # "none" \/ ~Has(e, "results") THEN {}
  ELSE
  LET full == ConcatMsgs(e.bodies)
      sentR == IF e.close = "none" THEN full ELSE Prefix(full, e.close_at)
      M == Messages(sentR)
      K == Len(e.bodies)
      dropmid == Has(e, "drop_first_after_ms")
      one(k) ==
        LET r == e.results[k] IN
        IF r.out = "skipped" THEN {}
        ELSE IF dropmid /\ k = 1 THEN {}      \* the abandoned reader itself: anything goes
        ELSE IF k <= Len(M) THEN
          (IF r.out = "ok" THEN (IF r.body = BodyOf2(M[k]) THEN {} ELSE {V("C06", "WrongMessageDelivered", e, CutKind(e))})
           ELSE IF Hung(r.out) THEN
                {V(IF dropmid THEN "C18" ELSE IF e.close = "none" THEN "C06" ELSE "C07",
                   IF dropmid THEN "SurvivorStuckAfterReaderDropped" ELSE "CompleteMessageNotDelivered", e,
                   CutKind(e) \o " close=" \o e.close)}
           ELSE IF e.close = "abort" THEN {}     \* a reset may discard data already received
           ELSE {V(IF dropmid THEN "C18" ELSE "C06", "CompleteMessageLost", e, CutKind(e) \o " close=" \o e.close)})
        ELSE (IF Hung(r.out) THEN {V("C07", "PendingRequestHangsAfterClose", e, "close=" \o e.close)}
              ELSE IF r.out = "ok" THEN {V("C06", "PhantomMessage", e, "")} ELSE {})
  IN UNION {one(k) : k \in 1..Len(e.results)}

AfterViol(e) ==
  IF e.established # "yes" \/ e.hello_close # "none" \/ ~Has(e, "after") THEN {}
  ELSE IF e.after.out = "skipped" THEN {}
  ELSE IF e.close # "none"
       THEN (IF Hung(e.after.out) THEN {V("C07", "SubsequentOperationHangsAfterClose", e, "close=" \o e.close)}
             ELSE IF e.after.out = "ok" THEN {V("C07", "SubsequentOperationSucceedsAfterClose", e, "")} ELSE {})
       ELSE (IF e.after.out = "ok" THEN {}
             ELSE {V(IF Has(e, "drop_first_after_ms") THEN "C18" ELSE "C06", "SessionUnusableAfterwards", e, e.after.out)})

(* closing the session after the peer has gone: an operation like any other *)
CloseOpViol(e) ==
  IF ~Has(e, "closeop") \/ e.established # "yes" THEN {}
  ELSE IF Hung(e.closeop.out) THEN {V("C07", "CloseOfTheSessionHangsAfterPeerClosed", e, "close=" \o e.close)}
  (* ... and it completes with an error: the peer was gone before <close-session> could be answered *)
  ELSE IF e.closeop.out = "ok" THEN {V("C07", "CloseOfTheSessionReportsSuccessAfterPeerClosed", e, "close=" \o e.close)}
  ELSE {}
LineViol(e) == EstViol(e) \cup ResultViol(e) \cup AfterViol(e) \cup CloseOpViol(e)

Nontrivial(e) == e.cuts # <<>> \/ e.close # "none" \/ e.hello_close # "none" \/ e.hello_cuts # <<>>
TInit == l = 1 /\ viol = {} /\ stats = [lines |-> 0, nontrivial |-> 0, closes |-> 0]
TNext == /\ l <= Len(Rec) /\ l' = l + 1
         /\ viol' = Merge(viol, LineViol(Rec[l]))
         /\ stats' = [stats EXCEPT !.lines = @ + 1, !.nontrivial = IF Nontrivial(Rec[l]) THEN @ + 1 ELSE @,
                                   !.closes = IF Rec[l].close # "none" \/ Rec[l].hello_close # "none" THEN @ + 1 ELSE @]
TSpec == TInit /\ [][TNext]_tvars
Done == l > Len(Rec)
Report == Done => PrintT(<<"TRACE-RESULT", ToJson([lines |-> Len(Rec), stats |-> stats, viol |-> viol])>>)
Accepted == TLCGet("stats").diameter >= Len(Rec)
=============================================================================
