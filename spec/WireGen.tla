------------------------------ MODULE WireGen ------------------------------
(* TLC as the enumerator of the bounded input spaces of Wire.tla: evaluating *)
(* the ASSUME prints the cases as JSON; tools pick the line up.              *)
EXTENDS Wire, Json, IOUtils
CONSTANTS What, K1, K2

C08Cases ==
  (* types whose grammar has no load-configuration-results: top-level sequences, `res` with a    *)
  (* single <ok/> inside; the load type: sequences around one results element with all inners    *)
  {[type |-> t, top |-> top, inner |-> <<"ok">>] : t \in {"empty", "data", "bare"}, top \in SeqsUpTo(TopTok, K1)}
  \cup {[type |-> "load", top |-> top, inner |-> inner] :
           top \in {q \in SeqsUpTo({"res", "E", "W", "ok", "cmt"}, 2) : Count(q, {"res"}) <= 1},
           inner \in SeqsUpTo(InnerTok, K2)}

C09Contents == ContentCases
(* capability sets: all subsets of the given universe *)
C09CapSets(U) == SUBSET U

C12Cases ==
  {[base |-> b, sid |-> s, ns |-> n, shape |-> sh, order |-> o] :
      b \in SUBSET Versions, s \in SidShapes, n \in {"default", "prefixed"},
      sh \in {"ok"}, o \in {"before", "after"}}
  \cup {[base |-> Versions, sid |-> "1", ns |-> n, shape |-> sh, order |-> o] :
      n \in {"default", "prefixed"}, sh \in HelloShapes \ {"ok"}, o \in {"before", "after"}}

Out ==
  CASE What = "c08" -> ToJson([cases |-> C08Cases])
    [] What = "c09" -> ToJson([contents |-> C09Contents])
    [] What = "c12" -> ToJson([cases |-> C12Cases])
ASSUME PrintT(<<"GEN", Out>>)
VARIABLE dummy
Spec == dummy = 0 /\ [][dummy' = dummy]_dummy
=============================================================================
