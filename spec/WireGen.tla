------------------------------ MODULE WireGen ------------------------------
(* TLC as the enumerator of the bounded input spaces of Wire.tla: evaluating *)
(* the ASSUME prints the cases as JSON; tools pick the line up.              *)
EXTENDS Wire, Json, IOUtils
CONSTANTS What, K1, K2

C08Cases ==
  (* types whose grammar has no load-configuration-results: top-level sequences, `res` with a    *)
  (* single <ok/> inside; the load type: sequences around one results element with all inners    *)
  {[type |-> t, top |-> top, inner |-> <<"ok">>] : t \in {"empty", "data", "bare"}, top \in SeqsUpTo(TopTok, K1)}
  \cup {[type |-> "load", top |-> top, inner |-> inner] :
           top \in {q \in SeqsUpTo({"res", "E", "W", "ok", "cmt"}, 2) : Count(q, {"res"}) <= 1},
           inner \in SeqsUpTo(InnerTok, K2)}
            (* long lists of errors (a load that went wrong from the first line on): nine, thirteen, forty - all errors, and *)
            (* warnings with the only error at the very end                                                                *)
            \cup {[type |-> t, top |-> [k \in 1..n |-> "E"], inner |-> <<"ok">>] : t \in {"empty", "data", "bare"}, n \in {9, 13, 40}}
            \cup {[type |-> t, top |-> [k \in 1..n |-> IF k = n THEN "E" ELSE "W"], inner |-> <<"ok">>] : t \in {"empty", "data", "bare"}, n \in {9, 13, 40}}
            \cup {[type |-> "load", top |-> <<"res">>, inner |-> [k \in 1..n |-> IF k = n THEN "E" ELSE w]] : n \in {9, 13, 40}, w \in {"E", "W"}}

C09Contents == ContentCases
(* capability sets: all subsets of the given universe *)
C09CapSets(U) == SUBSET U

Lookalikes == {"ns-form", "yang-module", "other-versions", "capability-form"}
C12Cases ==
  {[base |-> b, sid |-> s, ns |-> n, shape |-> sh, order |-> o, extra |-> "none"] :
      b \in SUBSET Versions, s \in SidShapes, n \in {"default", "prefixed"},
      sh \in {"ok"}, o \in {"before", "after"}}
  \cup {[base |-> Versions, sid |-> "1", ns |-> n, shape |-> sh, order |-> o, extra |-> "none"] :
      n \in {"default", "prefixed"}, sh \in HelloShapes \ {"ok"}, o \in {"before", "after"}}
  (* capabilities that look like a base-protocol capability and are none (the protocol's XML namespace, its YANG  *)
  (* module, other version numbers, the same words under :capability:), next to every subset of the real ones      *)
  \cup {[base |-> b, sid |-> "1", ns |-> n, shape |-> "ok", order |-> "before", extra |-> x] :
      b \in SUBSET Versions, n \in {"default", "prefixed"}, x \in Lookalikes}
  (* a server that lists hundreds or thousands of YANG modules, one capability each: a hello of 30 KB .. 2 MB *)
  \cup {[base |-> b, sid |-> "1", ns |-> n, shape |-> "ok", order |-> o, extra |-> x] :
      b \in {{"1.0"}, Versions, {"1.1"}}, n \in {"default", "prefixed"}, o \in {"before", "after"},
      x \in {"modules-400", "modules-900", "modules-1000", "modules-4000", "modules-30000"}}
  (* what stands around the root element of a well-formed hello: XML declarations in their spellings, comments *)
  \cup {[base |-> b, sid |-> s, ns |-> n, shape |-> "ok", order |-> o, extra |-> "none", decl |-> d] :
      b \in {{"1.0"}, Versions, {"1.1"}}, s \in {"1", "zero"}, n \in {"default", "prefixed"}, o \in {"before", "after"},
      d \in {"upper", "lower", "noenc", "standalone", "comment", "trailing-comment", "crlf-layout", "cr-layout"}}

(* C13: every subset of the information-preserving rewrites *)
Rewrites == {"pfx", "ws", "pad", "cmt", "attr", "decl", "empt"}
RECURSIVE SetSeq(_)
SetSeq(S) == IF S = {} THEN <<>> ELSE LET x == CHOOSE y \in S : TRUE IN <<x>> \o SetSeq(S \ {x})
(* ... and a comment in the middle of the text of a token-valued element (<session-id>47<!-- -->11</session-id>): on   *)
(* its own and with one other rewrite, not in every composition (what it breaks is a recorded finding, and it     *)
(* must not hide what the other compositions show)                                                               *)
C13Cases == {SetSeq(s) : s \in SUBSET Rewrites} \cup {<<"cmtmid">>} \cup {<<"cmtmid", f>> : f \in {"pfx", "ws", "attr"}}
            (* the layout's line ends written as CR LF or as bare CR; prefixes that only attributes use declared on the root *)
            \cup UNION {{<<le>>, <<le, "ws">>, <<le, "pad">>, <<le, "ws", "pad">>, <<le, "ws", "pad", "cmt", "decl">>} : le \in {"crlf", "cr"}}
            \cup {<<"nsup">>, <<"nsup", "pfx">>, <<"nsup", "attr">>}

(* C10: every text-valued parameter x every string of up to K1 character classes *)
Params == {"persist", "persist-id", "persist-id-with-persist", "persist-with-persist-id", "cancel-persist-id", "log", "log-after-failed-write", "instance", "xpath", "xpath-get", "url-edit", "url-delete", "url-host",
           "text-config", "json-config", "set-config", "subtree-filter", "edit-fragment", "copy-fragment", "edit-opaque", "load-opaque"}
Classes == {"plain", "lt", "gt", "amp", "quot", "apos", "delim", "nonascii", "space",
            (* values a "normaliser" would rewrite *)
            "dotseg", "pctenc", "upcase", "bslash", "tab"}
C10Cases == {[param |-> p, classes |-> c] : p \in Params, c \in SeqsUpTo(Classes, K1)}
            (* a value of some hundred kilobytes whose multi-byte characters sit at every alignment *)
            \cup {[param |-> p, classes |-> <<"big-nonascii">>] : p \in {"text-config", "json-config", "set-config", "log", "xpath", "edit-fragment", "load-opaque", "persist"}}

(* C14: mutation scripts over the message templates: operator, one or two positions (eighths of the message) *)
Templates == {"hello", "reply-ok", "reply-errors", "reply-data", "reply-bare", "load-ok", "load-errors",
              "reply-errors-ext", "reply-bare-error", "load-count-only"}
(* templates whose text is full of multi-byte characters: every byte position is cut / made invalid *)
NonAscii == {"reply-nonascii", "reply-data-nonascii"}
C14Cases ==
  {[tmpl |-> t, op |-> o, p |-> p, q |-> 0, seed |-> 0] : t \in Templates, o \in {"trunc", "flip20", "flip80", "flip01", "badutf8"}, p \in 0..8}
  \cup {[tmpl |-> t, op |-> "splice", p |-> p, q |-> q, seed |-> 0] : t \in Templates, p \in 0..7, q \in 1..8}
  \cup {[tmpl |-> t, op |-> o, p |-> 0, q |-> 0, seed |-> 0] : t \in Templates, o \in {"none", "dupelem", "hugeint", "wrongns", "deep", "big", "empty"}}
  \cup {[tmpl |-> t, op |-> "leaftext", p |-> p, q |-> q, seed |-> 0] : t \in Templates, p \in 0..8, q \in 0..18}
  (* well-formed replies that name a request nobody made *)
  \cup {[tmpl |-> t, op |-> o, p |-> 0, q |-> 0, seed |-> 0] : t \in Templates \ {"hello"}, o \in {"strayid-far", "strayid-next", "strayid-zero", "strayid-max"}}
  \cup {[tmpl |-> "hello", op |-> "query", p |-> 0, q |-> q, seed |-> 0] : q \in 0..10}
  \cup {[tmpl |-> t, op |-> "random", p |-> 0, q |-> 0, seed |-> sd] : t \in Templates, sd \in 1..K1}
  \cup {[tmpl |-> t, op |-> o, p |-> p, q |-> q, seed |-> 0] : t \in NonAscii, o \in {"trunc@", "bad@"}, p \in 0..10, q \in 0..63}
  \cup {[tmpl |-> t, op |-> "deepat", p |-> p, q |-> q, seed |-> 0] : t \in {"reply-errors", "reply-errors-ext", "reply-data", "load-errors", "hello"}, p \in 0..4, q \in 0..2}

Out ==
  CASE What = "c14" -> ToJson([cases |-> C14Cases])
    [] What = "c10" -> ToJson([cases |-> C10Cases])
    [] What = "c13" -> ToJson([cases |-> C13Cases])
    [] What = "c08" -> ToJson([cases |-> C08Cases])
    [] What = "c09" -> ToJson([contents |-> C09Contents, incomplete |-> IncompleteContents])
    [] What = "c12" -> ToJson([cases |-> C12Cases])
ASSUME PrintT(<<"GEN", Out>>)
VARIABLE dummy
Spec == dummy = 0 /\ [][dummy' = dummy]_dummy
=============================================================================
