------------------------------ MODULE Backoff ------------------------------
(***************************************************************************)
(* The back-off arithmetic of the daemon loop (Daemon.tla NextBackoff,     *)
(* junos-agent/src/task.rs Loop::start) for EVERY period, not only the     *)
(* five periods TLC explores: an inductive invariant checked by Apalache   *)
(* (SMT, unbounded integers).                                              *)
(*   Init => IndInv            (apalache-mc check --length=0 --inv=IndInv) *)
(*   IndInv /\ Next => IndInv' (--init=IndInit --length=1 --inv=IndInv)    *)
(*   IndInv => Contract        (--init=IndInit --length=0 --inv=Contract)  *)
(* Contract is Daemon!RetryDelayOk / AfterSuccessOk restated on the        *)
(* variables below.                                                        *)
(***************************************************************************)
EXTENDS Integers

CONSTANTS
  \* @type: Int;
  Period,
  \* @type: Bool;
  FixCap       \* TRUE: cap = max(period, 60 s) (fix fa30dbc); FALSE: as found, cap = period

VARIABLES
  \* @type: Int;
  backoff,     \* the delay the next failure will be followed by
  \* @type: Int;
  nfail,       \* consecutive failures so far
  \* @type: Int;
  delay,       \* delay scheduled after the last finished run
  \* @type: Int;
  prev         \* delay scheduled after the run before that, if that was a failure too (else 0)

MinBackoff == 60
Max(a, b) == IF a > b THEN a ELSE b
Min(a, b) == IF a < b THEN a ELSE b
Cap == Max(MinBackoff, Period)

ConstInit == Period \in Nat /\ Period >= 1 /\ FixCap = TRUE
ConstInitAsFound == Period \in Nat /\ Period >= 1 /\ FixCap = FALSE

Init == backoff = MinBackoff /\ nfail = 0 /\ delay = Period /\ prev = 0

Fail == /\ delay' = backoff
        /\ prev' = IF nfail = 0 THEN 0 ELSE delay
        /\ backoff' = Min(IF FixCap THEN Cap ELSE Period, 2 * backoff)
        /\ nfail' = nfail + 1
Succeed == /\ delay' = Period /\ prev' = 0 /\ backoff' = MinBackoff /\ nfail' = 0
Next == Fail \/ Succeed

(* C19: first retry after exactly one minute, delays never shrink, grow strictly until the cap   *)
(* max(period, 60 s) is reached, never exceed it; after a success the period is restored          *)
Contract ==
  /\ (nfail = 0 => delay = Period)
  /\ (nfail >= 1 => delay > 0 /\ delay <= Cap)
  /\ (nfail = 1 => delay = MinBackoff)
  /\ (nfail > 1 => delay >= prev /\ (prev < Cap => delay > prev))

IndInv ==
  /\ Period \in Nat /\ Period >= 1
  /\ nfail \in Nat /\ backoff \in Int /\ delay \in Int /\ prev \in Int
  /\ backoff >= MinBackoff /\ backoff <= Cap
  /\ (nfail = 0 => backoff = MinBackoff /\ delay = Period /\ prev = 0)
  /\ (nfail >= 1 => /\ delay >= MinBackoff /\ delay <= Cap
                    /\ backoff = Min(Cap, 2 * delay))
  /\ (nfail = 1 => delay = MinBackoff /\ prev = 0)
  /\ (nfail > 1 => /\ prev >= MinBackoff /\ prev <= Cap
                   /\ delay = Min(Cap, 2 * prev))
IndInit == IndInv
=============================================================================
