------------------------------- MODULE System -------------------------------
(***************************************************************************)
(* The agent as a whole in daemon mode: the loop of Daemon.tla around the  *)
(* run of AgentRun.tla against the router of Junos.tla, with an            *)
(* environment that changes the inputs (which policies are marked, what    *)
(* their expressions evaluate to, which evaluations fail) and injects      *)
(* failures (router or IRR) - both finitely often.                         *)
(*                                                                         *)
(* Safety:  the committed configuration changes only by the commit of a    *)
(*          run in which every step was acknowledged, is never fail-open,  *)
(*          is always readable by the agent, and never contains more than  *)
(*          the last successfully evaluated data allowed (C01-C04 seen     *)
(*          from outside); retry delays follow the C19 contract.           *)
(* Liveness (under weak fairness of the loop): once inputs stop changing   *)
(*          and failures stop, the configuration converges to the inputs   *)
(*          and stays there.                                               *)
(***************************************************************************)
EXTENDS AgentRun, Daemon
CONSTANTS Period, MaxChanges, MaxFaults
VARIABLES eph, st, phase, backoff, fails, lastDelay, changes, faults, applied
svars == <<eph, st, phase, backoff, fails, lastDelay, changes, faults, applied>>

Unmarked == [n \in PNames |-> [kind |-> "unmarked"]]
SInit == /\ eph = <<>> /\ st = Unmarked /\ phase = "waiting" /\ backoff = MinBackoff /\ fails = 0
         /\ lastDelay = 0 /\ changes = 0 /\ faults = 0 /\ applied = Unmarked

ChangeInputs == /\ changes < MaxChanges /\ phase = "waiting"
                /\ \E s2 \in [PNames -> Status] : s2 # st /\ st' = s2
                /\ changes' = changes + 1
                /\ UNCHANGED <<eph, phase, backoff, fails, lastDelay, faults, applied>>
StartRun == /\ phase = "waiting" /\ phase' = "running"
            /\ UNCHANGED <<eph, st, backoff, fails, lastDelay, changes, faults, applied>>
(* every step acknowledged: open, both get-config, all loads, commit, close *)
RunSucceeds == /\ phase = "running" /\ ReaderAccepts(eph)
               /\ eph' = ApplyAll(eph, PlanSet(st, InstalledView(eph)))
               /\ applied' = st
               /\ phase' = "waiting" /\ backoff' = MinBackoff /\ fails' = 0 /\ lastDelay' = Period
               /\ UNCHANGED <<st, changes, faults>>
(* any step failed (or the reader rejected what is installed): nothing is committed *)
RunFails == /\ phase = "running" /\ (faults < MaxFaults \/ ~ReaderAccepts(eph))
            /\ faults' = IF ReaderAccepts(eph) THEN faults + 1 ELSE faults
            /\ phase' = "waiting" /\ fails' = fails + 1
            /\ lastDelay' = backoff /\ backoff' = NextBackoff(Period, backoff, TRUE)
            /\ UNCHANGED <<eph, st, changes, applied>>
SNext == ChangeInputs \/ StartRun \/ RunSucceeds \/ RunFails
SSpec == SInit /\ [][SNext]_svars /\ WF_svars(StartRun) /\ WF_svars(RunSucceeds)

(* ---- safety ---- *)
OnlyCommitChanges == [][eph' # eph => (phase = "running" /\ phase' = "waiting" /\ fails' = 0)]_svars
NeverFailOpen == \A k \in 1..Len(eph) : ~FailOpen(eph[k])
AlwaysReadable == ReaderAccepts(eph)
(* what is installed is what the last successful run evaluated - never more *)
InstalledIsLastApplied ==
  \A n \in Names(eph) : /\ applied[n].kind # "unmarked"
                        /\ applied[n].kind = "ok" =>
                             /\ AcceptAtoms(Get(eph, n), "inet", Den) = applied[n].t.inet
                             /\ AcceptAtoms(Get(eph, n), "inet6", Den) = applied[n].t.inet6
DelaysOk == /\ (fails = 0 /\ lastDelay # 0 => lastDelay = Period)
            /\ (fails = 1 => lastDelay = MinBackoff)
            /\ (fails > 0 => lastDelay <= Cap(Period) /\ lastDelay >= MinBackoff)
(* ---- liveness ---- *)
Settled == Converged(eph, st) /\ NoOrphans(eph, st)
EventuallyConverges == <>[]Settled
=============================================================================
