------------------------------- MODULE Daemon -------------------------------
(***************************************************************************)
(* Daemon mode of the agent (junos-agent/src/task.rs, Loop::start):        *)
(*   interval timer, `reset()` after a success, `reset_after(backoff)`     *)
(*   after a failure with backoff doubling under a cap, SIGHUP ->          *)
(*   reset_immediately(), SIGINT/SIGTERM -> exit.                          *)
(* Time is virtual (seconds).  The model is implementation-shaped; the     *)
(* contract of C19 is stated over the observable timeline only (when runs  *)
(* start and finish, with which outcome; signals; exit) in Contract* and   *)
(* is what DaemonTrace.tla evaluates on the real loop.                     *)
(***************************************************************************)
EXTENDS Naturals, Sequences, TLC

MinBackoff == 60
Max(a, b) == IF a > b THEN a ELSE b
Min(a, b) == IF a < b THEN a ELSE b
Cap(period) == Max(MinBackoff, period)
(* FixCap = TRUE: backoff' = min(max(period, 60), 2 * backoff)  (after the fix)                 *)
(* FixCap = FALSE: backoff' = min(period, 2 * backoff)          (as found: shrinks below 60 s)  *)
NextBackoff(period, backoff, fixCap) ==
  Min(IF fixCap THEN Cap(period) ELSE period, 2 * backoff)

(* ---- contract on a timeline: delays between the end of a run and the start of the next ---- *)
(* delay after the k-th consecutive failure (k >= 1), prev = delay after the (k-1)-th (0 if k = 1) *)
RetryDelayOk(period, k, prev, delay) ==
  /\ delay > 0
  /\ (k = 1 => delay = MinBackoff)
  /\ (k > 1 => delay >= prev)
  /\ (k > 1 /\ prev < Cap(period) => delay > prev)
  /\ delay <= Cap(period)
AfterSuccessOk(period, delay) == delay = period
=============================================================================
