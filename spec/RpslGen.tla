------------------------------ MODULE RpslGen ------------------------------
(* TLC enumerates the building blocks of the C11/C17 cases: the options of   *)
(* every database dimension and the expression leaves / operators.  The      *)
(* scenario builder combines them (full product or seeded sample); the       *)
(* semantics (Rpsl!Eval) is evaluated by TLC again when judging (RpslTrace). *)
EXTENDS Rpsl, Json

P8 == <<4, 8, 0>>  P9a == <<4, 9, 0>>  P9b == <<4, 9, 1>>  P10a == <<4, 10, 0>>
V32 == <<6, 32, 0>>  V33a == <<6, 33, 0>>  V33b == <<6, 33, 1>>
RouteChoices == {{}, {P8}, {P9a}, {P9a, P9b}, {V32}, {P9b, V33a}}
S1Opts == {[sets |-> s, items |-> i] : s \in SUBSET {"S2"}, i \in SUBSET {"A1", "A2"}}
S2Opts == {[sets |-> s, items |-> i] : s \in SUBSET {"S1"}, i \in SUBSET {"A2", "A3"}}
R1Opts == {[sets |-> s, items |-> i] : s \in SUBSET {"R2"}, i \in SUBSET {P10a, V33b}}
R2Opts == {[sets |-> s, items |-> i] : s \in SUBSET {"R1"}, i \in SUBSET {P9b}}
(* <<33, 34>>, <<33, 33>>: lengths that only IPv6 prefixes can have - applied to a set with prefixes of both families,  *)
(* the IPv4 members contribute nothing and the IPv6 members their more specifics                                      *)
Rngs == {NoRange, <<10, 10>>, <<9, 10>>, <<10, 11>>, <<33, 34>>}
RsRngs == {NoRange, <<10, 11>>, <<11, 11>>, <<33, 33>>}
Leaves ==
  {[op |-> "asset", name |-> n, rng |-> r] : n \in {"S1", "S2"}, r \in Rngs}
  \cup {[op |-> "as", name |-> n, rng |-> r] : n \in {"A1", "A2"}, r \in Rngs}
  \cup {[op |-> "rset", name |-> "R1", rng |-> r] : r \in RsRngs}
  \cup {[op |-> "fset", name |-> "F1"], [op |-> "fset", name |-> "F2"],
         (* a filter-set that only the server's second registry has (F1 may have a second copy there) *)
         [op |-> "fset", name |-> "F3"]}
  \cup {[op |-> "lit", atoms |-> a, rng |-> r] : a \in {{P8}, {P9a, V32}}, r \in Rngs}
FltOpts == {[op |-> "asset", name |-> "S1", rng |-> NoRange],
            [op |-> "and", l |-> [op |-> "asset", name |-> "S2", rng |-> NoRange], r |-> [op |-> "rset", name |-> "R1", rng |-> NoRange]],
            [op |-> "or", l |-> [op |-> "as", name |-> "A3", rng |-> <<9, 10>>], r |-> [op |-> "rset", name |-> "R1", rng |-> NoRange]]}
(* a second filter-set built on the first: an expression may reach the same filter-set along several paths     *)
F2Opts == {[op |-> "and", l |-> [op |-> "fset", name |-> "F1"], r |-> [op |-> "asset", name |-> "S2", rng |-> NoRange]],
           [op |-> "or", l |-> [op |-> "fset", name |-> "F1"], r |-> [op |-> "rset", name |-> "R1", rng |-> NoRange]],
           [op |-> "as", name |-> "A1", rng |-> NoRange]}
(* expressions in which one name occurs more than once (shared building blocks, not cycles) *)
F1 == [op |-> "fset", name |-> "F1"]  F2 == [op |-> "fset", name |-> "F2"]
S(n) == [op |-> "asset", name |-> n, rng |-> NoRange]
Shared == {[op |-> "or", l |-> F1, r |-> F1],
           [op |-> "or", l |-> [op |-> "and", l |-> F1, r |-> S("S1")], r |-> [op |-> "and", l |-> F1, r |-> S("S2")]],
           [op |-> "or", l |-> F2, r |-> F1], [op |-> "or", l |-> F1, r |-> F2], [op |-> "and", l |-> F2, r |-> F2],
           [op |-> "or", l |-> S("S1"), r |-> [op |-> "and", l |-> S("S1"), r |-> S("S2")]],
           [op |-> "andnot", l |-> [op |-> "or", l |-> S("S1"), r |-> S("S2")], r |-> [op |-> "lit", atoms |-> {P9a}, rng |-> NoRange]],
           [op |-> "or", l |-> [op |-> "rset", name |-> "R1", rng |-> NoRange], r |-> [op |-> "rset", name |-> "R1", rng |-> <<10, 11>>]]}
(* a filter-set that refers to itself is not a meaningful database (the real evaluator recurses forever on it); not generated *)
ASSUME PrintT(<<"GEN", ToJson([routeChoices |-> RouteChoices, s1 |-> S1Opts, s2 |-> S2Opts, r1 |-> R1Opts, r2 |-> R2Opts,
                               leaves |-> Leaves, ops |-> {"and", "or", "andnot"}, flt |-> FltOpts, flt2 |-> F2Opts, shared |-> Shared])>>)
VARIABLE dummy
Spec == dummy = 0 /\ [][dummy' = dummy]_dummy
=============================================================================
