---------------------------- MODULE SessionTrace ----------------------------
(***************************************************************************)
(* Validation of executions recorded from the real netconf::Session        *)
(* (harness/src/bin/sess.rs) against Session.tla.                          *)
(*                                                                         *)
(* One trace line = one harness command plus what was observable after it. *)
(* Two things are evaluated at every line:                                 *)
(*  1. the CONTRACT, by a monitor that uses observables only (ids seen on  *)
(*     the wire, replies pushed, results delivered, who is still pending   *)
(*     at quiescence).  A breach adds a record to `viol`.  This alone      *)
(*     decides the verdict.                                                *)
(*  2. CONFORMANCE with the implementation-shaped model: the model state   *)
(*     is stepped with the same command (one poll = RunFut/RunCaller) and  *)
(*     its prediction of the observation is compared with the recorded     *)
(*     one.  A mismatch marks the case as drifted (reported, not an        *)
(*     alarm); the model is then no longer consulted for that case.        *)
(* The file holds many cases separated by "reset" lines.                   *)
(***************************************************************************)
EXTENDS Session, Json, IOUtils, TLCExt

Rec == ndJsonDeserialize(IOEnv.TRACE)
Prop == IOEnv.PROP

VARIABLES l, st, drift, mon, viol, stats
tvars == <<l, st, drift, mon, viol, stats>>

Has(e, f) == f \in DOMAIN e
SeqSet(q) == {q[k] : k \in 1..Len(q)}

MonInit == [ seen |-> <<>>, pushedId |-> <<>>, consumed |-> 0, strangers |-> {},
             delivered |-> {}, dropped |-> {}, answered |-> {}, faulty |-> FALSE,
             closed |-> FALSE, mode |-> "free", busy |-> FALSE, done |-> {}, damaged |-> {}, damagedTags |-> {} ]

TInit == /\ l = 1 /\ st = InitState /\ drift = FALSE /\ mon = MonInit /\ viol = {}
         /\ stats = [cases |-> 0, drifted |-> 0, firstDrift |-> "", polls |-> 0, lostCases |-> 0,
                     nomodel |-> 0, results |-> 0]

---------------------------------------------------------------------------
(* conformance: model step + predicted observation *)
CallerRes(s0, s1, good) ==
  IF s1.cpc # "idle" THEN [caller |-> "pending", ret |-> "none", fut |-> 0]
  ELSE IF s1.cerr > s0.cerr THEN [caller |-> "idle", ret |-> "err", fut |-> 0]
  ELSE IF s1.lastId > s0.lastId \/ s0.cpc # "idle"
       THEN [caller |-> "idle", ret |-> "fut",
             fut |-> IF s0.cpc # "idle" THEN s0.cid ELSE s1.lastId]
  ELSE [caller |-> "idle", ret |-> "none", fut |-> 0]

LoggedCallerRes(e) ==
  [caller |-> e.res.caller, ret |-> e.res.ret, fut |-> IF Has(e.res, "fut") THEN e.res.fut ELSE 0]

FutRes(s1, t) ==
  IF s1.pc[t] # "done" THEN [state |-> "pending", tag |-> 0, err |-> "none"]
  ELSE IF s1.resKind[t] = "ok" THEN [state |-> "ok", tag |-> s1.resTag[t], err |-> "none"]
  ELSE [state |-> "err", tag |-> 0, err |-> s1.resErr[t]]
LoggedFutRes(e) ==
  [state |-> e.res.state, tag |-> IF Has(e.res, "tag") THEN e.res.tag ELSE 0,
   err |-> IF Has(e.res, "err") THEN e.res.err ELSE "none"]

ModelStep(s, e) ==
  CASE e.ev = "rpc" /\ ~Has(e, "skipped") /\ Has(e, "close") -> RunCaller(StartClose(s))
    [] e.ev = "rpc" /\ ~Has(e, "skipped") -> RunCaller(StartRpc(s, e.good))
    [] e.ev = "pollc" -> RunCaller(s)
    [] e.ev = "poll" /\ e.res.state # "absent" -> RunFut(s, e.t)
    [] e.ev = "drop" /\ ~Has(e, "skipped") -> DropFut(s, e.t)
    [] e.ev = "dropc" /\ ~Has(e, "skipped") -> DropCaller(s)
    [] e.ev = "reply" -> Reply(s, e.id)
    [] e.ev \in {"stray", "dup"} -> Stray(s, e.id)
    [] e.ev = "garbage" -> Garbage(s)
    [] e.ev = "badbody" -> BadBody(s, e.id)
    [] e.ev = "glued" -> Glued(s, e.id)
    [] e.ev = "close" -> Close(s)
    [] e.ev = "mode" -> [s EXCEPT !.sendMode = e.m]
    [] OTHER -> s

ModelApplicable(s, e) ==
  CASE e.ev = "rpc" /\ ~Has(e, "skipped") -> CanStartRpc(s)
    [] e.ev = "poll" /\ e.res.state # "absent" -> e.t \in Id /\ FutLive(s, e.t)
    [] e.ev = "drop" /\ ~Has(e, "skipped") -> e.t \in Id /\ FutLive(s, e.t)
    [] e.ev = "dropc" /\ ~Has(e, "skipped") -> s.cpc # "idle"
    [] e.ev \in {"reply", "stray", "dup"} -> e.id \in 1..(N+1) /\ e.tag = Tag(s)
    [] e.ev \in {"badbody", "glued"} -> e.id \in Id /\ e.tag = Tag(s)
    [] OTHER -> TRUE

NewSent(s0, s1) == SubSeq(s1.sent, Len(s0.sent) + 1, Len(s1.sent))
RWait(s) == \E t \in Id : s.pc[t] = "reading"

ObsMatches(s0, s1, e) ==
  /\ (Has(e, "sent") => e.sent = NewSent(s0, s1))
  /\ (Has(e, "delivered") => e.delivered = Len(s1.pushed) - Len(s1.wire))
  /\ (Has(e, "rwait") => e.rwait = RWait(s1))
  /\ (e.ev \in {"rpc", "pollc"} /\ Has(e, "res") =>
        LoggedCallerRes(e) = CallerRes(s0, s1, IF Has(e, "good") THEN e.good ELSE TRUE))
  /\ (e.ev = "poll" /\ e.res.state # "absent" => LoggedFutRes(e) = FutRes(s1, e.t))
  /\ (e.ev = "quiesce" =>
        /\ SeqSet(e.pending) = {t \in Id : FutLive(s1, t)}
        /\ e.caller_busy = (s1.cpc # "idle"))

---------------------------------------------------------------------------
(* contract monitor (observables only) *)
V(rule, e, disc) == [prop |-> Prop, rule |-> rule, case |-> e.case, seq |-> e.seq, disc |-> disc]

MonSent(m, e) ==
  IF Has(e, "sent") THEN [m EXCEPT !.seen = @ \o e.sent] ELSE m
SentViol(m, e) ==
  IF ~Has(e, "sent") THEN {}
  ELSE {V("UniqueIds", e, "id reused") : k \in {k \in 1..Len(e.sent) :
            \/ e.sent[k] \in SeqSet(m.seen)
            \/ \E j \in 1..(k-1) : e.sent[j] = e.sent[k]}}

(* replies consumed by this step: stranger if the id was never sent and no rpc() is in flight *)
MonConsume(m, e, busyBefore) ==
  IF ~Has(e, "delivered") \/ e.delivered <= m.consumed THEN m
  ELSE [m EXCEPT !.consumed = e.delivered,
                 !.strangers = @ \cup {k \in (m.consumed+1)..e.delivered :
                                         /\ k <= Len(m.pushedId)
                                         /\ m.pushedId[k] \notin SeqSet(m.seen)
                                         /\ ~busyBefore}]

MonEvent(m, e) ==
  CASE e.ev \in {"rpc", "pollc"} /\ Has(e, "res") -> [m EXCEPT !.busy = (e.res.caller = "pending")]
    [] e.ev = "reply" -> [m EXCEPT !.pushedId = Append(@, e.id), !.answered = @ \cup {e.id}]
    [] e.ev \in {"stray", "dup"} -> [m EXCEPT !.pushedId = Append(@, e.id), !.faulty = TRUE]
    [] e.ev = "garbage" -> [m EXCEPT !.pushedId = Append(@, 0), !.faulty = TRUE]
    [] e.ev = "glued" -> [m EXCEPT !.pushedId = Append(@, e.id), !.answered = @ \cup {e.id}, !.damaged = @ \cup {e.id},
                                   !.damagedTags = @ \cup {e.tag}, !.faulty = TRUE]
    [] e.ev = "badbody" -> [m EXCEPT !.pushedId = Append(@, e.id), !.answered = @ \cup {e.id}, !.damaged = @ \cup {e.id}, !.damagedTags = @ \cup {e.tag}]
    [] e.ev = "close" -> [m EXCEPT !.faulty = TRUE, !.closed = TRUE]
    [] e.ev = "mode" -> [m EXCEPT !.mode = e.m]
    [] e.ev = "drop" /\ ~Has(e, "skipped") -> [m EXCEPT !.dropped = @ \cup {e.t}]
    [] e.ev = "dropc" /\ ~Has(e, "skipped") -> [m EXCEPT !.faulty = TRUE, !.busy = FALSE]
    [] e.ev = "poll" /\ e.res.state = "ok" ->
         [m EXCEPT !.delivered = @ \cup {e.res.tag}, !.done = @ \cup {e.t}]
    [] e.ev = "poll" /\ e.res.state = "err" -> [m EXCEPT !.done = @ \cup {e.t}]
    [] OTHER -> m

(* why is a future still waiting / failing?  taken from the model when it still tracks the case *)
Why(s, dr, t) ==
  IF dr THEN "unexplained(model drifted)"
  ELSE IF s.lost # {} THEN "reply-lost:reader-dropped-while-holding-it"
  ELSE "unexplained"

EventViol(m, m1, s1, dr, e) ==
  (IF e.ev = "poll" /\ e.res.state = "ok" THEN
      (IF e.res.tag \in 1..Len(m.pushedId) /\ m.pushedId[e.res.tag] = e.t THEN {}
       ELSE {V("OwnReply", e, "result is not the reply with the caller's message-id")})
      \cup (IF e.res.tag \in m.delivered THEN {V("AtMostOnce", e, "reply delivered twice")} ELSE {})
      \cup (IF e.res.tag \in m1.strangers THEN {V("NoStranger", e, "unsolicited reply delivered")} ELSE {})
   ELSE {})
  \cup
  (IF e.ev = "poll" /\ e.res.state = "err" /\ ~m.faulty /\ e.t \notin m.damaged
   THEN {V("ErrWithoutFault", e, e.res.err)} ELSE {})
  \cup
  (IF e.ev = "poll" /\ e.res.state = "ok" /\ e.res.tag \in m.damagedTags
   THEN {V("DamagedReplyDeliveredAsValue", e, "")} ELSE {})
  \cup
  (IF e.ev \in {"rpc", "pollc"} /\ Has(e, "res") /\ e.res.ret = "err" /\ ~m.faulty
      /\ (IF Has(e, "good") THEN e.good ELSE TRUE) /\ e.ev = "rpc"
   THEN {V("RpcFailed", e, e.res.err)} ELSE {})
  \cup
  (IF e.ev = "quiesce" /\ m.mode = "free" /\ ~m.faulty /\ SeqSet(m.seen) \subseteq m.answered
   THEN {V("LeftWaiting", e, Why(s1, dr, t)) : t \in SeqSet(e.pending)}
        \cup (IF e.caller_busy THEN {V("CallerStuck", e, "rpc() never returned")} ELSE {})
   ELSE {})
  \cup
  (IF e.ev = "quiesce" /\ m.mode = "free" /\ m.closed
   THEN {V("CloseHang", e, "future still pending after the peer closed") : t \in SeqSet(e.pending)}
   ELSE {})
  \cup
  (* every request on the wire has been answered, the send side is free, and a call of rpc() is still pending: it *)
  (* waits for the caller to collect earlier replies - a caller that sends everything first waits for ever        *)
  (IF e.ev = "stuckcheck" /\ e.caller_busy /\ m.mode = "free" /\ ~m.faulty /\ SeqSet(m.seen) \subseteq m.answered
   THEN {V("CallerStuck", e, "rpc() does not return until earlier reply futures are polled")} ELSE {})
  \cup
  (IF e.ev = "panic" THEN {V("Panic", e, e.msg)} ELSE {})

(* `viol` keeps one record per (rule, discriminator): the first case that showed it and a count *)
RECURSIVE Merge(_, _)
Merge(vs, new) ==
  IF new = {} THEN vs
  ELSE LET v == CHOOSE x \in new : TRUE
           same == {w \in vs : w.rule = v.rule /\ w.disc = v.disc}
       IN  IF same = {}
           THEN Merge(vs \cup {[prop |-> v.prop, rule |-> v.rule, disc |-> v.disc,
                                case |-> v.case, seq |-> v.seq, n |-> 1]}, new \ {v})
           ELSE LET w == CHOOSE x \in same : TRUE
                IN  Merge((vs \ {w}) \cup {[w EXCEPT !.n = @ + 1]}, new \ {v})

---------------------------------------------------------------------------
TNext ==
  /\ l <= Len(Rec)
  /\ l' = l + 1
  /\ LET e == Rec[l] IN
     IF e.ev = "reset"
     THEN /\ st' = InitState /\ drift' = FALSE /\ mon' = MonInit /\ viol' = viol
          /\ stats' = [stats EXCEPT !.cases = @ + 1]
     ELSE
       LET nomodel == e.ev = "nomodel"
           ok  == ~drift /\ ~nomodel /\ ModelApplicable(st, e)
           s1  == IF ok THEN ModelStep(st, e) ELSE st
           dr  == drift \/ ~ok \/ ~ObsMatches(st, s1, e)
           m0  == MonSent(mon, e)
           m1  == MonConsume(m0, e, mon.busy)
           m2  == MonEvent(m1, e)
       IN /\ st' = s1
          /\ drift' = dr
          /\ mon' = m2
          /\ viol' = Merge(viol, SentViol(mon, e) \cup EventViol(m1, m1, s1, dr, e))
          /\ stats' = [stats EXCEPT
                 !.drifted = IF dr /\ ~drift /\ ~nomodel THEN @ + 1 ELSE @,
                 !.nomodel = IF nomodel THEN @ + 1 ELSE @,
                 !.results = IF e.ev = "poll" /\ e.res.state \in {"ok", "err"} THEN @ + 1 ELSE @,
                 !.firstDrift = IF dr /\ ~drift /\ ~nomodel /\ @ = "" THEN ToString(<<e.case, e.seq>>) ELSE @,
                 !.polls = IF e.ev = "poll" THEN @ + 1 ELSE @,
                 !.lostCases = IF e.ev = "quiesce" /\ ~dr /\ s1.lost # {} THEN @ + 1 ELSE @]

TSpec == TInit /\ [][TNext]_tvars

(* contract invariants of the model itself, evaluated on every state of every recorded run *)
TraceModelSafe == drift \/ Safety(st)

Done == l > Len(Rec)
Report ==
  Done => /\ PrintT(<<"TRACE-RESULT", ToJson([lines |-> Len(Rec), stats |-> stats,
                                            viol |-> viol])>>)
Accepted == TLCGet("stats").diameter >= Len(Rec)
=============================================================================
