----------------------------- MODULE DaemonGen -----------------------------
(* TLC enumerates the daemon histories replayed on the real loop: a period,  *)
(* a sequence of run outcomes (with a run duration), and optionally one      *)
(* signal placed strictly inside a waiting interval.                         *)
EXTENDS Daemon, Json, FiniteSets
CONSTANTS Depth

Periods == {10, 45, 60, 100, 300}
Outcomes == [1..Depth -> BOOLEAN]
(* where a signal goes: after the k-th finished run, d seconds later (always < the shortest possible wait) *)
SigPlaces(p) == {[after |-> k, delay |-> d, sig |-> s] : k \in 1..Depth, d \in {1, Min(p, MinBackoff) - 1}, s \in {"hup", "int", "term"}}
(* run durations: instantaneous, a few seconds, or (slow = TRUE) longer than one and than several periods *)
RECURSIVE Jobs(_, _, _, _)
Jobs(o, k, p, slow) ==
  IF k > Len(o) THEN <<>>
  ELSE <<[ok |-> o[k], dur |-> IF slow /\ k % 2 = 1 THEN p + 40 ELSE IF slow THEN 3 * p + 11 ELSE IF k % 3 = 2 THEN 7 ELSE 0]>>
       \o Jobs(o, k + 1, p, slow)
(* the wait the loop is in after the k-th run of outcome sequence o, by the model (NextBackoff): a signal that     *)
(* arrives `delay` = that wait after the run coincides with the timer - the loop sees both in the same poll        *)
RECURSIVE BackoffAfter(_, _, _)
BackoffAfter(o, k, p) ==      \* value of `backoff` before the k-th run ended
  IF k = 1 THEN MinBackoff ELSE IF o[k - 1] THEN MinBackoff ELSE NextBackoff(p, BackoffAfter(o, k - 1, p), TRUE)
WaitAfter(o, k, p) == IF o[k] THEN p ELSE BackoffAfter(o, k, p)
TickPlaces(o, p) == {[after |-> k, delay |-> WaitAfter(o, k, p), sig |-> s, same_poll |-> TRUE] : k \in 1..Depth, s \in {"int", "term", "hup"}}
(* a signal that arrives while a run is in progress: every job lasts 5 s, the signal comes 1 s or 4 s after the   *)
(* start of job k ("after" = k - 1 finished jobs)                                                                  *)
MidJobs(o) == [k \in 1..Len(o) |-> [ok |-> o[k], dur |-> 5]]
DuringPlaces == {[after |-> k - 1, delay |-> d, sig |-> s, during |-> TRUE] : k \in 1..Depth, d \in {1, 4}, s \in {"hup", "int", "term"}}
Cases ==
  {[period |-> p, jobs |-> Jobs(o, 1, p, sl), signals |-> <<>>] : p \in Periods, o \in Outcomes, sl \in BOOLEAN}
  \cup {[period |-> p, jobs |-> MidJobs(o), signals |-> <<s>>] : p \in Periods, o \in Outcomes, s \in DuringPlaces}
  \cup UNION {UNION {{[period |-> p, jobs |-> Jobs(o, 1, p, FALSE), signals |-> <<s>>] : s \in TickPlaces(o, p)} : o \in Outcomes} : p \in Periods}
  \cup UNION {{[period |-> p, jobs |-> Jobs(o, 1, p, FALSE), signals |-> <<s>>] : o \in Outcomes, s \in SigPlaces(p)} : p \in Periods}
(* a long run of consecutive failures (far beyond the point where the delay stops growing), a recovery, *)
(* and failures again: the delay must stay at the cap, return to the period, and restart at one minute *)
LongCases == {[period |-> p, jobs |-> [k \in 1..46 |-> [ok |-> (k \in {41, 42}), dur |-> 0]], signals |-> <<>>] : p \in Periods}
ASSUME PrintT(<<"GEN", ToJson([cases |-> Cases, long |-> LongCases])>>)
VARIABLE dummy
Spec == dummy = 0 /\ [][dummy' = dummy]_dummy
=============================================================================
