------------------------------- MODULE Wire -------------------------------
(***************************************************************************)
(* The "wire" layer of bgpfu-netconf: pure relations with a large case     *)
(* analysis.  TLC enumerates the bounded input spaces from here (WireGen)  *)
(* and evaluates the relations on what the real library did (WireTrace).   *)
(*                                                                         *)
(*  C08  Verdict    : reply document (token tree)  x  reported outcome     *)
(*  C09  Permitted  : advertised capabilities x request content  (RFC 6241 *)
(*                    section 8, written from the RFC, not from the code)  *)
(*  C12  Hello      : server hello  x  client advertisement -> established,*)
(*                    negotiated version, framing (RFC 6242 section 4.1)   *)
(***************************************************************************)
EXTENDS Naturals, Sequences, FiniteSets, TLC

SeqsUpTo(S, n) == UNION {[1..k -> S] : k \in 0..n}
Elems(q) == {q[k] : k \in 1..Len(q)}
Count(q, S) == Cardinality({k \in 1..Len(q) : q[k] \in S})

---------------------------------------------------------------------------
(* C08.  A reply is <rpc-reply> with a sequence of top-level tokens;       *)
(*   ok    <ok/>                data  <data>..</data>                      *)
(*   E / W <rpc-error> of severity error / warning                         *)
(*   cmt   an XML comment       x     an element the grammar does not know *)
(*   res   <load-configuration-results> containing the `inner` sequence    *)
(*         over ok, E, W, cmt, c0 c1 c2 (<load-error-count>n)             *)
ReplyTypes == {"empty", "data", "bare", "load"}
TopTok   == {"ok", "data", "E", "W", "cmt", "x", "res"}
InnerTok == {"ok", "E", "W", "cmt", "c0", "c1", "c2"}
ErrTok   == {"E", "W"}

(* number of rpc-error elements of the reply, in document order they are 1..n *)
NErrors(top, inner) ==
  Count(top, ErrTok) + Count(top, {"res"}) * Count(inner, ErrTok)
HasSevereError(top, inner) ==
  "E" \in Elems(top) \/ ("res" \in Elems(top) /\ "E" \in Elems(inner))
PositiveIndication(type, top, inner) ==
  CASE type = "empty" -> "ok" \in Elems(top)
    [] type = "data"  -> "data" \in Elems(top)
    [] type = "load"  -> "res" \in Elems(top) /\ "ok" \in Elems(inner)
    [] type = "bare"  -> TRUE
(* outcome: "ok" | "rpcerror" (with the list of error indices the library reported) | anything else *)
VerdictOk(type, top, inner, outcome, errs) ==
  /\ outcome = "ok" => (~HasSevereError(top, inner) /\ PositiveIndication(type, top, inner))
  /\ outcome = "rpcerror" => errs = [k \in 1..NErrors(top, inner) |-> k]
(* same: every <rpc-error> of the reply is the same element (reported as number 1 each) *)
VerdictRule(type, top, inner, outcome, errs, same) ==
  IF outcome = "ok" /\ HasSevereError(top, inner) THEN "ErrorReportedAsSuccess"
  ELSE IF outcome = "ok" /\ ~PositiveIndication(type, top, inner) THEN "SuccessWithoutPositiveIndication"
  ELSE IF outcome = "rpcerror" /\ errs # [k \in 1..NErrors(top, inner) |-> IF same THEN 1 ELSE k]
       THEN "ErrorsNotThoseOfTheReply"
  ELSE "none"

---------------------------------------------------------------------------
(* C09.  Capabilities as short names; url schemes as separate names.       *)
StdCaps == {"wr", "cand", "cc10", "cc11", "roe", "val10", "val11", "startup", "xpath", "junos",
            "url-file", "url-http", "url-ftp"}
Datastores == {"running", "candidate", "startup"}
SchemeCap(s) == CASE s = "file" -> "url-file" [] s = "http" -> "url-http" [] s = "ftp" -> "url-ftp"
                  [] OTHER -> "url-none"
JunosOps == {"open-configuration", "close-configuration", "lock-configuration", "unlock-configuration",
             "load-configuration", "commit-configuration"}

(* a request content; every field always present ("none"/FALSE when unused) *)
Content(op, tgt, src, filt, scheme, confirmed, timeout, persist, persistid, testopt, erropt) ==
  [op |-> op, tgt |-> tgt, src |-> src, filt |-> filt, scheme |-> scheme, confirmed |-> confirmed,
   timeout |-> timeout, persist |-> persist, persistid |-> persistid, testopt |-> testopt, erropt |-> erropt]
Plain(op) == Content(op, "none", "none", "none", "none", FALSE, FALSE, FALSE, FALSE, "none", "none")

AsSource(d) == CASE d = "candidate" -> {"cand"} [] d = "startup" -> {"startup"} [] OTHER -> {}
AsTarget(d) == CASE d = "running" -> {"wr"} [] d = "candidate" -> {"cand"} [] d = "startup" -> {"startup"}
                 [] OTHER -> {}
AnyOf(S, caps) == S \cap caps # {}

Permitted(caps, c) ==
  /\ (c.op \in {"commit", "discard-changes"} => "cand" \in caps)
  /\ (c.op = "cancel-commit" => "cc11" \in caps)
  /\ (c.op = "validate" => AnyOf({"val10", "val11"}, caps))
  /\ (c.op \in JunosOps => "junos" \in caps)
  /\ (c.src \in Datastores => AsSource(c.src) \subseteq caps)
  /\ (c.op \in {"edit-config", "copy-config", "delete-config"} /\ c.tgt \in Datastores
        => AsTarget(c.tgt) \subseteq caps)
  /\ (c.op \in {"lock", "unlock"} => AsSource(c.tgt) \subseteq caps)
  /\ (c.filt = "xpath" => "xpath" \in caps)
  /\ (c.scheme # "none" => SchemeCap(c.scheme) \in caps)
  /\ ((c.confirmed \/ c.timeout) => AnyOf({"cc10", "cc11"}, caps))
  /\ ((c.persist \/ c.persistid) => "cc11" \in caps)
  /\ (c.testopt # "none" => AnyOf({"val10", "val11"}, caps))
  /\ (c.testopt = "test-only" => "val11" \in caps)
  /\ (c.erropt = "rollback-on-error" => "roe" \in caps)

Filters == {"none", "subtree", "xpath"}
Contents ==
     {Content("get", "none", "none", f, "none", FALSE, FALSE, FALSE, FALSE, "none", "none") : f \in Filters}
  \cup {Content("get-config", "none", s, f, "none", FALSE, FALSE, FALSE, FALSE, "none", "none")
          : s \in Datastores, f \in Filters}
  \cup {Content("edit-config", t, "config", "none", "none", FALSE, FALSE, FALSE, FALSE, to, eo)
          : t \in Datastores, to \in {"none", "test-then-set", "set", "test-only"},
            eo \in {"none", "stop-on-error", "continue-on-error", "rollback-on-error"}}
  \cup {Content("edit-config", t, "url", "none", sc, FALSE, FALSE, FALSE, FALSE, "none", "none")
          : t \in Datastores, sc \in {"file", "http", "ftp", "https"}}
  \cup {Content("copy-config", t, s, "none", "none", FALSE, FALSE, FALSE, FALSE, "none", "none")
          : t \in Datastores, s \in Datastores \cup {"config"}}
  \cup {Content("delete-config", t, "none", "none", "none", FALSE, FALSE, FALSE, FALSE, "none", "none")
          : t \in {"candidate", "startup"}}
  \cup {Content("delete-config", "url", "none", "none", sc, FALSE, FALSE, FALSE, FALSE, "none", "none")
          : sc \in {"file", "http", "ftp", "https"}}
  \cup {Content(o, t, "none", "none", "none", FALSE, FALSE, FALSE, FALSE, "none", "none")
          : o \in {"lock", "unlock"}, t \in Datastores}
  \cup {Content("validate", "none", s, "none", "none", FALSE, FALSE, FALSE, FALSE, "none", "none")
          : s \in Datastores \cup {"config"}}
  \cup {Content("commit", "none", "none", "none", "none", cf, tm, ps, pi, "none", "none")
          : cf \in BOOLEAN, tm \in BOOLEAN, ps \in BOOLEAN, pi \in BOOLEAN}
  \cup {Content("cancel-commit", "none", "none", "none", "none", FALSE, FALSE, FALSE, pi, "none", "none")
          : pi \in BOOLEAN}
  \cup {Plain(o) : o \in {"discard-changes", "kill-session", "close-session"} \cup JunosOps}
(* structurally meaningful contents only: persist needs confirmed, persist-id excludes confirmed,   *)
(* a timeout is only written for a confirmed commit                                                  *)
WellFormedContent(c) ==
  c.op = "commit" => /\ (c.persist => c.confirmed) /\ (c.persistid => ~c.confirmed)
                     /\ (c.timeout => c.confirmed)
ContentCases == {c \in Contents : WellFormedContent(c)}
(* requests built with a mandatory parameter left out (no target, no source / configuration): the library may    *)
(* refuse them or fill in a default - what it then sends must still be permitted                                  *)
IncompleteContents ==
     {Content("edit-config", "none", sr, "none", "none", FALSE, FALSE, FALSE, FALSE, "none", "none") : sr \in {"config", "none"}}
  \cup {Content("edit-config", t, "none", "none", "none", FALSE, FALSE, FALSE, FALSE, "none", "none") : t \in Datastores}
  \cup {Content("copy-config", "none", sr, "none", "none", FALSE, FALSE, FALSE, FALSE, "none", "none") : sr \in Datastores \cup {"config", "none"}}
  \cup {Content("copy-config", t, "none", "none", "none", FALSE, FALSE, FALSE, FALSE, "none", "none") : t \in Datastores}
  \cup {Content(o, "none", "none", "none", "none", FALSE, FALSE, FALSE, FALSE, "none", "none") : o \in {"delete-config", "lock", "unlock", "validate", "get-config"}}

---------------------------------------------------------------------------
(* C12.  Server hello: which base versions it advertises, the shape of its *)
(* session-id, namespace style, overall shape; the client's advertisement  *)
(* is whatever the client really sent.                                      *)
Versions == {"1.0", "1.1"}
SidShapes == {"1", "max", "zero", "toobig", "negative", "word", "empty", "missing", "dup"}
SidValid(s) == s \in {"1", "max"}
HelloShapes == {"ok", "nocaps", "wrongns", "truncated", "notxml", "trailing-text", "two-roots", "trailing-reply", "stray-end"}
VMax(S) == IF "1.1" \in S THEN "1.1" ELSE "1.0"
ShouldEstablish(base, sid, shape, clientBase) ==
  shape = "ok" /\ SidValid(sid) /\ (base \cap clientBase) # {}
FramingOf(v) == IF v = "1.1" THEN "chunked" ELSE "eom"
=============================================================================
