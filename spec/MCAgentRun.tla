----------------------------- MODULE MCAgentRun -----------------------------
(* Design check of AgentRun.tla: consecutive runs with inputs changing       *)
(* arbitrarily between them, and the request protocol of one run with a      *)
(* fault possible at every reply.                                            *)
EXTENDS AgentRun
CONSTANTS MaxRuns, MaxLoads
VARIABLES eph, runs, lastSt, phase, sent, acked, failed, commitSent, commitAcked, closed, exitOk, nloads
vars == <<eph, runs, lastSt, phase, sent, acked, failed, commitSent, commitAcked, closed, exitOk, nloads>>

NoSt == [n \in PNames |-> [kind |-> "unmarked"]]
(* C02 quantifies over all installed states: besides the empty instance, one the agent did not write -  *)
(* a policy whose trailing reject is missing, with a range that no target asks for                    *)
ForeignEph == <<[name |-> CHOOSE n \in PNames : TRUE, reject |-> FALSE,
                 terms |-> <<[name |-> "inet", family |-> "inet", filters |-> SetSeq(A4), accept |-> TRUE]>>]>>
(* ... and a policy whose inet term matches on the family alone (accepts every IPv4 route) *)
BareEph == <<[name |-> CHOOSE n \in PNames : TRUE, reject |-> TRUE,
              terms |-> <<[name |-> "inet", family |-> "inet", filters |-> <<>>, accept |-> TRUE]>>]>>
Init == /\ eph \in {<<>>, ForeignEph, BareEph} /\ runs = 0 /\ lastSt = NoSt
        /\ phase = "idle" /\ sent = 0 /\ acked = 0 /\ failed = FALSE /\ commitSent = FALSE /\ commitAcked = FALSE
        /\ closed = 0 /\ exitOk = FALSE /\ nloads = 0

(* ---- data level: a whole successful run as one step (faults abort before the commit: no change) ---- *)
DataRun == \E st \in [PNames -> Status] :
  /\ phase = "idle" /\ runs < MaxRuns
  /\ runs' = runs + 1 /\ lastSt' = st
  /\ IF ReaderAccepts(eph) THEN eph' = ApplyAll(eph, PlanSet(st, InstalledView(eph))) ELSE eph' = eph
  /\ UNCHANGED <<phase, sent, acked, failed, commitSent, commitAcked, closed, exitOk, nloads>>

(* ---- protocol level: one run, N pipelined loads, any reply may be a failure ---- *)
Begin == \E n \in 0..MaxLoads :
  /\ phase = "idle" /\ phase' = "open" /\ nloads' = n /\ sent' = 0 /\ acked' = 0 /\ failed' = FALSE
  /\ commitSent' = FALSE /\ commitAcked' = FALSE /\ closed' = 0 /\ exitOk' = FALSE
  /\ UNCHANGED <<eph, runs, lastSt>>
Abort == phase' = "done" /\ failed' = TRUE /\ exitOk' = FALSE
Step(from, to) == \/ /\ phase = from /\ phase' = to /\ UNCHANGED <<failed, exitOk>>     \* positive reply
                  \/ /\ phase = from /\ Abort                                           \* error / malformed / disconnect
OpenDb   == Step("open", "getR")    /\ UNCHANGED <<eph, runs, lastSt, sent, acked, commitSent, commitAcked, closed, nloads>>
GetR     == Step("getR", "getC")    /\ UNCHANGED <<eph, runs, lastSt, sent, acked, commitSent, commitAcked, closed, nloads>>
GetC     == Step("getC", "sending") /\ UNCHANGED <<eph, runs, lastSt, sent, acked, commitSent, commitAcked, closed, nloads>>
SendLoad == /\ phase = "sending" /\ sent < nloads /\ sent' = sent + 1
            /\ UNCHANGED <<eph, runs, lastSt, phase, acked, failed, commitSent, commitAcked, closed, exitOk, nloads>>
AllSent  == /\ phase = "sending" /\ sent = nloads /\ phase' = "awaiting"
            /\ UNCHANGED <<eph, runs, lastSt, sent, acked, failed, commitSent, commitAcked, closed, exitOk, nloads>>
AwaitLoad == /\ phase = "awaiting" /\ acked < nloads
             /\ \/ acked' = acked + 1 /\ UNCHANGED <<phase, failed, exitOk>>
                \/ Abort /\ UNCHANGED acked
             /\ UNCHANGED <<eph, runs, lastSt, sent, commitSent, commitAcked, closed, nloads>>
Commit   == /\ phase = "awaiting" /\ acked = nloads /\ commitSent' = TRUE
            /\ \/ phase' = "closeDb" /\ commitAcked' = TRUE /\ UNCHANGED <<failed, exitOk>>
               \/ Abort /\ UNCHANGED commitAcked
            /\ UNCHANGED <<eph, runs, lastSt, sent, acked, closed, nloads>>
CloseDb  == Step("closeDb", "closeSess") /\ closed' = closed + (IF phase' = "closeSess" THEN 1 ELSE 0)
            /\ UNCHANGED <<eph, runs, lastSt, sent, acked, commitSent, commitAcked, nloads>>
CloseSess == /\ phase = "closeSess"
             /\ \/ phase' = "done" /\ exitOk' = TRUE /\ closed' = closed + 1 /\ UNCHANGED failed
                \/ Abort /\ UNCHANGED closed
             /\ UNCHANGED <<eph, runs, lastSt, sent, acked, commitSent, commitAcked, nloads>>
Finish == /\ phase = "done" /\ phase' = "idle"
          /\ UNCHANGED <<eph, runs, lastSt, sent, acked, failed, commitSent, commitAcked, closed, exitOk, nloads>>
ProtoNext == Begin \/ OpenDb \/ GetR \/ GetC \/ SendLoad \/ AllSent \/ AwaitLoad \/ Commit \/ CloseDb \/ CloseSess \/ Finish
SpecData  == Init /\ [][DataRun]_vars
SpecProto == Init /\ [][ProtoNext]_vars

(* C01 / C03 at the end of every (successful) data run *)
InvConverged == runs > 0 /\ ReaderAccepts(eph) => Converged(eph, lastSt) /\ NoOrphans(eph, lastSt)
(* (every state the agent itself installs; a foreign state it refuses to read stays as it is - it changes nothing) *)
InvReadBack  == eph = BareEph \/ ReaderAccepts(eph)
(* C02: every update of the plan for every possible next input, applied on its own to the current state *)
InvUpdateSafe == ReaderAccepts(eph) =>
  \A st \in [PNames -> Status] : \A u \in PlanSet(st, InstalledView(eph)) : UpdateSafe(eph, u, st)
InvUntouched == ReaderAccepts(eph) =>
  \A st \in [PNames -> Status] : Untouched(eph, ApplyAll(eph, PlanSet(st, InstalledView(eph))), st)
InvIdempotent == runs > 0 /\ ReaderAccepts(eph) =>
  LET e2 == ApplyAll(eph, PlanSet(lastSt, InstalledView(eph))) IN
  /\ Names(e2) = Names(eph)
  /\ \A n \in Names(eph) : \A f \in Fam : AcceptAtoms(Get(e2, n), f, Den) = AcceptAtoms(Get(eph, n), f, Den)
(* C04 *)
InvCommitOnlyAfter == commitSent => acked = nloads /\ sent = nloads
NoCommitAfterFailure == [][(failed /\ phase # "idle") => commitSent' = commitSent]_vars
InvSuccessOnly == exitOk => commitAcked /\ closed = 2 /\ ~failed
=============================================================================
