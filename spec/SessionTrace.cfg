SPECIFICATION TSpec
CONSTANT N = 9
INVARIANT TraceModelSafe Report
POSTCONDITION Accepted
CHECK_DEADLOCK FALSE
