----------------------------- MODULE MCFraming -----------------------------
(* Design check of the two receivers of Framing.tla against the contract    *)
(* (C06: every delimiter-terminated message once, complete, in order, as    *)
(* soon as its delimiter has arrived; C07: a closed peer is an error, not a *)
(* spin) for every way the peer's stream is cut into writes and reads.      *)
EXTENDS Framing
CONSTANTS Kind,        \* "loop" | "pump"
          Bodies,      \* set of message bodies
          MaxMsgs,
          FixSearch,   \* loop: keep the last 5 bytes in the search window (FALSE: searched = buf.len())
          FixEof,      \* loop: a zero-length read is an error (FALSE: it is ignored and the loop spins)
          FixPump,     \* pump: extract every complete message of the buffer (FALSE: one find per packet)
          FixNone      \* pump: channel.wait() = None ends the task (FALSE: the select loop spins)

VARIABLES stream,      \* what the peer will send in total (chosen initially)
          sent,        \* number of symbols pushed so far
          net,         \* pushed and not yet read / not yet handed to the pump
          peer,        \* "open" | "closed"
          buf, searched, rstate,    \* loop receiver: rstate idle | search | read | err
          queue, pump,              \* pump receiver: pump running | exited | spinning
          delivered,   \* messages handed to the session layer
          spins
vars == <<stream, sent, net, peer, buf, searched, rstate, queue, pump, delivered, spins>>

(* body sets for the configurations (cfg files cannot contain tuples) *)
BodiesSmall == {<<>>, <<"x">>, <<"]">>, <<"]", "]", ">">>, <<"]", "]", ">", "]", "]">>, <<">", "]">>}
BodiesFull  == UNION {[1..k -> {"x", "]", ">"}] : k \in 0..2}
                 \cup {<<"]", "]", ">">>, <<"]", "]", ">", "]">>, <<"]", "]", ">", "]", "]">>, <<">", "]", "]">>}

Streams == UNION {{Concat(ms) : ms \in [1..k -> {Msg(b) : b \in Bodies}]} : k \in 1..MaxMsgs}

Init == /\ stream \in Streams /\ sent = 0 /\ net = <<>> /\ peer = "open"
        /\ buf = <<>> /\ searched = 0 /\ rstate = "idle" /\ queue = <<>> /\ pump = "running"
        /\ delivered = <<>> /\ spins = 0

(* the peer writes the next n symbols as one unit (TLS record / pipe write / SSH data packet) *)
PeerSend == \E n \in 1..(Len(stream) - sent) :
              /\ peer = "open" /\ sent < Len(stream)
              /\ (Kind = "pump" => Len(net) < 2)     \* at most two packets in flight (the pump drains them)
              /\ net' = (IF Kind = "pump" THEN Append(net, SubSeq(stream, sent + 1, sent + n))
                         ELSE net \o SubSeq(stream, sent + 1, sent + n))
              /\ sent' = sent + n
              /\ UNCHANGED <<stream, peer, buf, searched, rstate, queue, pump, delivered, spins>>
PeerClose == /\ peer = "open" /\ peer' = "closed"
             /\ UNCHANGED <<stream, sent, net, buf, searched, rstate, queue, pump, delivered, spins>>

(* ---- loop receiver ---- *)
RecvCall == /\ Kind = "loop" /\ rstate = "idle" /\ rstate' = "search" /\ searched' = 0
            /\ UNCHANGED <<stream, sent, net, peer, buf, queue, pump, delivered, spins>>
Search == /\ Kind = "loop" /\ rstate = "search"
          /\ LET i == FindFrom(buf, searched + 1) IN
             IF i # 0
             THEN /\ delivered' = Append(delivered, SubSeq(buf, 1, i + DL - 1))
                  /\ buf' = SubSeq(buf, i + DL, Len(buf)) /\ rstate' = "idle" /\ UNCHANGED searched
             ELSE /\ searched' = (IF FixSearch THEN (IF Len(buf) > DL - 1 THEN Len(buf) - (DL - 1) ELSE 0)
                                  ELSE Len(buf))
                  /\ rstate' = "read" /\ UNCHANGED <<buf, delivered>>
          /\ UNCHANGED <<stream, sent, net, peer, queue, pump, spins>>
Read == \E n \in 1..Len(net) :
          /\ Kind = "loop" /\ rstate = "read" /\ net # <<>>
          /\ buf' = buf \o SubSeq(net, 1, n) /\ net' = SubSeq(net, n + 1, Len(net)) /\ rstate' = "search"
          /\ UNCHANGED <<stream, sent, peer, searched, queue, pump, delivered, spins>>
ReadEof == /\ Kind = "loop" /\ rstate = "read" /\ net = <<>> /\ peer = "closed"
           /\ IF FixEof THEN rstate' = "err" /\ UNCHANGED spins
              ELSE rstate' = "search" /\ spins' = spins + 1     \* read_buf() = 0 is ignored
           /\ UNCHANGED <<stream, sent, net, peer, buf, searched, queue, pump, delivered>>

(* ---- pump receiver ---- *)
RECURSIVE Extract(_, _)
(* all complete messages of b (FixPump) or at most one (one find per packet) *)
Extract(b, all) == LET i == FindFrom(b, 1) IN
                   IF i = 0 THEN [msgs |-> <<>>, rest |-> b]
                   ELSE IF ~all THEN [msgs |-> <<SubSeq(b, 1, i + DL - 1)>>, rest |-> SubSeq(b, i + DL, Len(b))]
                   ELSE LET r == Extract(SubSeq(b, i + DL, Len(b)), all) IN
                        [msgs |-> <<SubSeq(b, 1, i + DL - 1)>> \o r.msgs, rest |-> r.rest]
PumpData == /\ Kind = "pump" /\ pump = "running" /\ net # <<>>
            /\ LET e == Extract(buf \o Head(net), FixPump) IN
               /\ buf' = e.rest /\ queue' = queue \o e.msgs
            /\ net' = Tail(net)
            /\ UNCHANGED <<stream, sent, peer, searched, rstate, pump, delivered, spins>>
PumpClosed == /\ Kind = "pump" /\ pump = "running" /\ net = <<>> /\ peer = "closed"
              /\ IF FixNone THEN pump' = "exited" /\ UNCHANGED spins
                 ELSE pump' = "running" /\ spins' = spins + 1
              /\ UNCHANGED <<stream, sent, net, peer, buf, searched, rstate, queue, delivered>>
Dequeue == /\ Kind = "pump" /\ queue # <<>>
           /\ delivered' = Append(delivered, Head(queue)) /\ queue' = Tail(queue)
           /\ UNCHANGED <<stream, sent, net, peer, buf, searched, rstate, pump, spins>>

Next == PeerSend \/ PeerClose \/ RecvCall \/ Search \/ Read \/ ReadEof \/ PumpData \/ PumpClosed \/ Dequeue
Spec == Init /\ [][Next]_vars /\ WF_vars(RecvCall \/ Search \/ Read \/ ReadEof \/ PumpData \/ PumpClosed \/ Dequeue)

(* ---- contract ---- *)
Arrived == SubSeq(stream, 1, sent)
InOrderOnce == IsPrefixOf(delivered, Messages(stream))
(* no further traffic is coming and the receiver cannot move: every complete message must be out *)
ReceiverStuck == IF Kind = "loop" THEN rstate = "read" /\ net = <<>> /\ peer = "open"
                 ELSE net = <<>> /\ queue = <<>> /\ pump = "running" /\ peer = "open"
Prompt == ReceiverStuck => Len(delivered) = Len(Messages(Arrived))
NoSpin == spins = 0
(* C07: once the peer has closed and everything was consumed, the receiver ends in an error state *)
EofIsError == <>[](peer = "closed" /\ net = <<>> =>
                     (IF Kind = "loop" THEN rstate \in {"err", "idle"} ELSE pump = "exited"))
AllDelivered == <>[](sent = Len(stream) => Len(delivered) = Len(Messages(stream)))
StateConstraint == spins <= 1
=============================================================================
