----------------------------- MODULE FramingGen -----------------------------
(* TLC enumerates the cases executed on the real transports: reply bodies,   *)
(* cut positions of the peer's byte stream (symbol indices of Framing!Msg2   *)
(* streams), and where/how the peer closes.  Printed as JSON from an ASSUME. *)
EXTENDS Framing, Json, Integers
CONSTANTS Family

B1 == {<<>>, <<"x">>, <<"]">>, <<"]", "]", ">">>, <<"]", "]", ">", "]", "]">>, <<">", "]">>}
B2 == {<<"x">>, <<"]", "]", ">">>, <<">", "]">>}
(* "X" is one symbol of 70 000 bytes: a message far larger than any read buffer, TLS record or SSH packet *)
BBig == {<<"X">>, <<"X", "]", "]", ">", "X">>, <<"]", "X", "]">>}
(* subsets with at most n <= 2 elements, built directly (SUBSET S would enumerate 2^|S| sets) *)
SubsetsUpTo(S, n) == {{}} \cup {{x} : x \in S} \cup (IF n >= 2 THEN {{x, y} : x \in S, y \in S} ELSE {})
Len1(b) == Len(Msg2(b))
RECURSIVE SetToSeq(_)
SetToSeq(S) == IF S = {} THEN <<>> ELSE LET x == CHOOSE y \in S : \A z \in S : y <= z IN <<x>> \o SetToSeq(S \ {x})

Case(bodies, cuts, close, closeAt, hcuts, hclose, hcloseAt) ==
  [bodies |-> bodies, cuts |-> SetToSeq(cuts), close |-> close, close_at |-> closeAt,
   hello_cuts |-> SetToSeq(hcuts), hello_close |-> hclose, hello_close_at |-> hcloseAt]
HelloLen == Len(Msg2(<<>>))

(* one message, every set of <= 2 cuts, no close *)
F1 == UNION {{Case(<<b>>, c, "none", -1, {}, "none", -1) : c \in SubsetsUpTo(1..(Len1(b) - 1), 2)} : b \in B1 \cup BBig}
(* two messages, <= 2 cuts anywhere (includes both in one chunk, cut on the boundary, in either delimiter) *)
F2 == UNION {{Case(<<ab[1], ab[2]>>, c, "none", -1, {}, "none", -1) :
                c \in SubsetsUpTo(1..(Len1(ab[1]) + Len1(ab[2]) - 1), 2)} : ab \in B2 \X B2}
(* hello cut at every position *)
F3 == {Case(<<<<"x">>>>, {}, "none", -1, {h}, "none", -1) : h \in 1..(HelloLen - 1)}
(* peer closes during the replies: every position (0 = right after the requests), <= 1 cut *)
F4 == UNION {{Case(<<<<"x">>, b>>, c, k, at, {}, "none", -1) :
                k \in {"clean", "abort", "eof"}, at \in 0..(Len1(<<"x">>) + Len1(b)),
                c \in SubsetsUpTo(1..(Len1(<<"x">>) + Len1(b) - 1), 1)} : b \in {<<"x">>, <<"]", "]", ">">>, <<"X", "]">>}}
(* peer closes before / inside the hello *)
F5 == {Case(<<<<"x">>>>, {}, "none", -1, hc, k, at) :
         k \in {"clean", "abort", "eof"}, at \in 0..(HelloLen - 1), hc \in SubsetsUpTo(1..(HelloLen - 1), 1)}
(* ... during a NEGATIVE reply: the stream ends before / between / after the children of its <rpc-error> (a reader of  *)
(* error replies has loops of its own)                                                                                *)
ErrBody == <<"<error-type>protocol</error-type>", "<error-tag>operation-failed</error-tag>", "<error-severity>error</error-severity>",
             "<error-message>the-message</error-message>">>
F13 == {Case(<<ErrBody>>, {}, k, at, {}, "none", -1) : k \in {"clean", "abort", "eof"}, at \in 0..Len1(ErrBody)}
       \cup {Case(<<<<"x">>, ErrBody>>, {}, k, at, {}, "none", -1) : k \in {"clean", "eof"}, at \in Len1(<<"x">>)..(Len1(<<"x">>) + Len1(ErrBody))}
       \cup {Case(<<ErrBody, <<"x">>>>, c, "none", -1, {}, "none", -1) : c \in {{}, {Len1(ErrBody)}, {7}}}
(* C18 on the real transports: the first reply arrives in two pieces and its reader is abandoned  *)
(* in between; the second request's reader must still get both messages right                     *)
F6 == UNION {{Case(<<a, <<"x">>>>, {c}, "none", -1, {}, "none", -1) : c \in 1..(Len1(a) - 1)}
             : a \in {<<"x">>, <<"]", "]", ">">>}}
(* the peer goes away while the transport itself is still being set up, before a single byte of the hello:     *)
(* after the TCP accept, in the middle of the TLS handshake / SSH version exchange, during SSH authentication,  *)
(* channel open and the subsystem request (connection cut, channel closed, request refused), a cli that exits    *)
(* without speaking NETCONF                                                                                       *)
Stages == {"tls-accept", "tls-greeting", "tls-greeting-reset", "tls-garbage", "tls-silent-then-close",
           "ssh-accept", "ssh-banner", "ssh-garbage", "ssh-auth", "ssh-channel", "ssh-channel-refuse",
           "ssh-subsystem-drop", "ssh-subsystem-close", "ssh-subsystem-refuse", "ssh-subsystem-ok-close",
           "local-exit", "local-stderr", "local-garbage"}
F7 == {Case(<<<<"x">>>>, {}, "none", -1, {}, st, 0) : st \in Stages}
(* Junos writes a line feed after every end-of-message marker: it arrives as the first byte of the next message *)
(* (the first of the five start-tag symbols), so one cut position separates it from the "<" that follows          *)
CaseSep(bodies, cuts) == [bodies |-> bodies, cuts |-> SetToSeq(cuts), close |-> "none", close_at |-> -1,
                          hello_cuts |-> <<>>, hello_close |-> "none", hello_close_at |-> -1, sep |-> "nl"]
F8 == UNION {{CaseSep(<<ab[1], ab[2]>>, c) : c \in SubsetsUpTo(1..(Len1(ab[1]) + Len1(ab[2]) - 1), 1)} : ab \in {<<"x">>, <<"]", "]", ">">>} \X {<<"x">>}}
(* messages whose length (marker included) is a multiple of the sizes code reads and buffers by *)
Sizes == {"A1024", "A4096", "A8192", "A16384", "A32768", "A65536"}
F9 == {Case(<<<<a>>>>, {}, "none", -1, {}, "none", -1) : a \in Sizes}
      \cup UNION {{Case(<<<<a>>, <<"x">>>>, c, "none", -1, {}, "none", -1) : c \in {{}, {Len1(<<a>>)}}} : a \in {"A4096", "A16384"}}
      \cup {Case(<<<<"A1500">>, <<"A2596">>>>, {}, "none", -1, {}, "none", -1), Case(<<<<"A4000">>, <<"A4192">>>>, {}, "none", -1, {}, "none", -1),
            Case(<<<<"x">>, <<"A8192">>>>, {Len1(<<"x">>)}, "none", -1, {}, "none", -1)}
      (* a configuration of a megabyte, and of 16 MiB give or take a few bytes, with the next message behind it in the same *)
      (* write or in a write of its own                                                                                  *)
      \cup UNION {{Case(<<<<a>>, <<"x">>>>, c, "none", -1, {}, "none", -1) : c \in {{}, {Len1(<<a>>)}}} :
                     a \in {"A1048576", "A16777152", "A16777215", "A16777216"}}
(* multi-byte characters, each of their bytes a symbol: every cut inside a character, one or two cuts *)
BU == {<<"U1", "U2">>, <<"x", "E1", "E2", "E3", "x">>, <<"G1", "G2", "G3", "G4">>, <<"U1", "U2", "]", "E1", "E2", "E3">>}
F10 == UNION {{Case(<<b>>, c, "none", -1, {}, "none", -1) : c \in SubsetsUpTo(5..(Len1(b) - 7), 2)} : b \in BU}
       \cup UNION {{Case(<<b, <<"x">>>>, {c}, "none", -1, {}, "none", -1) : c \in 5..(Len1(b) - 7)} : b \in BU}
(* many replies at once: more than any queue between the transport and the session holds (40 pipelined requests,  *)
(* the replies in one unit, or each in its own, or cut in the middle of the stream)                                *)
Many(n) == [k \in 1..n |-> <<"x">>]
F11 == {Case(Many(n), c, "none", -1, {}, "none", -1) : n \in {33, 40, 70},
          c \in {{}, {Len1(<<"x">>) * 20}}}
       \cup {Case(Many(n), {k * Len1(<<"x">>) : k \in 1..(n - 1)}, "none", -1, {}, "none", -1) : n \in {33, 40}}
(* SSH: the server starts writing before it has answered the subsystem request - channel data (all of the hello, its   *)
(* first byte, its first half, the hello and the first reply) arrives ahead of SSH_MSG_CHANNEL_SUCCESS                  *)
F12 == {[Case(<<b>>, {}, "none", -1, {}, "none", -1) EXCEPT !.hello_close_at = -1] @@ [early |-> e] :
          b \in {<<"x">>, <<"]", "]", ">">>}, e \in {"all", "one-byte", "half", "all-but-one"}}
(* a slow peer: its hello comes in two pieces six seconds apart (longer than any "still waiting" timer a client may run) *)
F14 == {[Case(<<<<"x">>>>, {}, "none", -1, {h}, "none", -1) EXCEPT !.close_at = -1] @@ [hello_pause_ms |-> 6000] : h \in {1, HelloLen \div 2, HelloLen - 1}}
Cases == CASE Family = "F14" -> F14 [] Family = "F13" -> F13 [] Family = "F12" -> F12 [] Family = "F7" -> F7 [] Family = "F10" -> F10 [] Family = "F11" -> F11 [] Family = "F8" -> F8 [] Family = "F9" -> F9 [] Family = "F6" -> F6 [] Family = "F1" -> F1 [] Family = "F2" -> F2 [] Family = "F3" -> F3
           [] Family = "F4" -> F4 [] Family = "F5" -> F5
ASSUME PrintT(<<"GEN", ToJson([cases |-> Cases])>>)
VARIABLE dummy
Spec == dummy = 0 /\ [][dummy' = dummy]_dummy
=============================================================================
