------------------------------ MODULE MCDaemon ------------------------------
(* Design check of the daemon loop for all outcome / signal histories.       *)
EXTENDS Daemon
CONSTANTS Period, MaxRuns, FixCap
VARIABLES now, next, backoff, state, nfail, prevDelay, lastFinish, lastOk, runs, hup, viol
vars == <<now, next, backoff, state, nfail, prevDelay, lastFinish, lastOk, runs, hup, viol>>

Init == /\ now = 0 /\ next = 0 /\ backoff = MinBackoff /\ state = "waiting" /\ nfail = 0 /\ prevDelay = 0
        /\ lastFinish = 0 /\ lastOk = TRUE /\ runs = 0 /\ hup = FALSE /\ viol = {}

(* the timer fires: a run starts (duration 0..1 units does not matter for the delays: measured from the finish) *)
Tick == /\ state = "waiting" /\ runs < MaxRuns /\ now' = next /\ state' = "running"
        /\ LET delay == next - lastFinish IN
           viol' = viol \cup
             (IF runs = 0 \/ hup THEN {}
              ELSE IF lastOk THEN (IF AfterSuccessOk(Period, delay) THEN {} ELSE {"PeriodNotRestored"})
              ELSE IF RetryDelayOk(Period, nfail, prevDelay, delay) THEN {} ELSE {"BadRetryDelay"})
        /\ prevDelay' = IF lastOk \/ hup THEN 0 ELSE next - lastFinish
        /\ hup' = FALSE
        /\ UNCHANGED <<next, backoff, nfail, lastFinish, lastOk, runs>>
RunEnds(ok) ==
  \E d \in {0, 7} :
     /\ state = "running" /\ now' = now + d /\ state' = "waiting" /\ runs' = runs + 1
     /\ lastFinish' = now + d /\ lastOk' = ok
     /\ IF ok THEN /\ next' = now + d + Period /\ backoff' = MinBackoff /\ nfail' = 0
              ELSE /\ next' = now + d + backoff /\ backoff' = NextBackoff(Period, backoff, FixCap) /\ nfail' = nfail + 1
     /\ UNCHANGED <<prevDelay, hup, viol>>
(* SIGHUP strictly inside the waiting interval: the next run starts at once *)
Sighup == \E t \in {now + 1, next - 1} :
            /\ state = "waiting" /\ runs > 0 /\ runs < MaxRuns /\ t > now /\ t < next /\ ~hup
            /\ now' = t /\ next' = t /\ hup' = TRUE
            /\ UNCHANGED <<backoff, state, nfail, prevDelay, lastFinish, lastOk, runs, viol>>
Sigterm == /\ state = "waiting" /\ runs > 0 /\ state' = "exited"
           /\ UNCHANGED <<now, next, backoff, nfail, prevDelay, lastFinish, lastOk, runs, hup, viol>>
Next == Tick \/ RunEnds(TRUE) \/ RunEnds(FALSE) \/ Sighup \/ Sigterm
Spec == Init /\ [][Next]_vars
Contract == viol = {}
NeverBusy == state = "waiting" /\ runs > 0 /\ ~hup => next > lastFinish
=============================================================================
