------------------------------ MODULE MCDaemon ------------------------------
(* Design check of the daemon loop for all outcome / signal histories.       *)
(* The loop is one select! over the timer and the signal streams; a run is   *)
(* awaited inline, so a signal that arrives while a run is in progress stays *)
(* pending in its stream and is served when the run has ended.               *)
(* Deviations (negative controls, TLC must refute each):                     *)
(*   ResetOnHup = TRUE   SIGHUP re-creates the schedule: the delay falls     *)
(*                       back to one minute in the middle of a streak        *)
(*   SwallowHup = TRUE   a SIGHUP that arrives during a run is consumed      *)
(*                       there ("already running") and triggers nothing      *)
EXTENDS Daemon
CONSTANTS Period, MaxRuns, FixCap, ResetOnHup, SwallowHup
VARIABLES now, next, backoff, state, nfail, prevDelay, lastFinish, lastOk, runs, hup, viol,
          hupPending,   \* a SIGHUP arrived while a run was in progress and has not been served
          owed          \* ghost: a SIGHUP arrived and no run has started since
vars == <<now, next, backoff, state, nfail, prevDelay, lastFinish, lastOk, runs, hup, viol, hupPending, owed>>

Init == /\ now = 0 /\ next = 0 /\ backoff = MinBackoff /\ state = "waiting" /\ nfail = 0 /\ prevDelay = 0
        /\ lastFinish = 0 /\ lastOk = TRUE /\ runs = 0 /\ hup = FALSE /\ viol = {} /\ hupPending = FALSE /\ owed = FALSE

(* the timer fires: a run starts (duration 0..1 units does not matter for the delays: measured from the finish) *)
Tick == /\ state = "waiting" /\ runs < MaxRuns /\ now' = next /\ state' = "running"
        /\ LET delay == next - lastFinish IN
           viol' = viol \cup
             (IF runs = 0 \/ hup THEN {}
              ELSE IF lastOk THEN (IF AfterSuccessOk(Period, delay) THEN {} ELSE {"PeriodNotRestored"})
              ELSE IF RetryDelayOk(Period, nfail, prevDelay, delay) THEN {} ELSE {"BadRetryDelay"})
        (* the delay the next retry is compared with: a run triggered by SIGHUP cut the scheduled delay short - it was *)
        (* at least the one before (one minute after a first failure); the streak of failures goes on over a SIGHUP   *)
        /\ prevDelay' = IF lastOk THEN 0 ELSE IF hup THEN (IF nfail = 1 THEN MinBackoff ELSE prevDelay) ELSE next - lastFinish
        /\ hup' = FALSE /\ owed' = FALSE
        /\ UNCHANGED <<next, backoff, nfail, lastFinish, lastOk, runs, hupPending>>
RunEnds(ok) ==
  \E d \in {0, 7} :
     /\ state = "running" /\ now' = now + d /\ state' = "waiting" /\ runs' = runs + 1
     /\ lastFinish' = now + d /\ lastOk' = ok
     /\ LET served == hupPending /\ ~SwallowHup IN
        /\ IF ok THEN /\ next' = IF served THEN now + d ELSE now + d + Period
                      /\ backoff' = MinBackoff /\ nfail' = 0
                 ELSE /\ next' = IF served THEN now + d ELSE now + d + backoff
                      /\ backoff' = IF served /\ ResetOnHup THEN MinBackoff ELSE NextBackoff(Period, backoff, FixCap)
                      /\ nfail' = nfail + 1
        /\ hup' = served /\ hupPending' = FALSE
     /\ UNCHANGED <<prevDelay, viol, owed>>
(* SIGHUP strictly inside the waiting interval: the next run starts at once *)
Sighup == \E t \in {now + 1, next - 1} :
            /\ state = "waiting" /\ runs > 0 /\ runs < MaxRuns /\ t > now /\ t < next /\ ~hup
            /\ now' = t /\ next' = t /\ hup' = TRUE /\ owed' = TRUE
            /\ backoff' = IF ResetOnHup THEN MinBackoff ELSE backoff
            /\ UNCHANGED <<state, nfail, prevDelay, lastFinish, lastOk, runs, viol, hupPending>>
(* ... or while a run is in progress: it stays pending *)
SighupDuringRun ==
  /\ state = "running" /\ runs < MaxRuns - 1 /\ ~hupPending
  /\ hupPending' = TRUE /\ owed' = TRUE
  /\ UNCHANGED <<now, next, backoff, state, nfail, prevDelay, lastFinish, lastOk, runs, hup, viol>>
Sigterm == /\ state = "waiting" /\ runs > 0 /\ state' = "exited"
           /\ UNCHANGED <<now, next, backoff, nfail, prevDelay, lastFinish, lastOk, runs, hup, viol, hupPending, owed>>
Next == Tick \/ RunEnds(TRUE) \/ RunEnds(FALSE) \/ Sighup \/ SighupDuringRun \/ Sigterm
Spec == Init /\ [][Next]_vars
Contract == viol = {}
NeverBusy == state = "waiting" /\ runs > 0 /\ ~hup => next > lastFinish
(* a SIGHUP is followed by a run at the earliest possible moment: while the loop waits and owes a run, its timer is due *)
SighupServed == (state = "waiting" /\ owed) => next = now
=============================================================================
