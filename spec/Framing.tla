------------------------------ MODULE Framing ------------------------------
(***************************************************************************)
(* End-of-message framing of the NETCONF transports                        *)
(* (netconf/src/transport/{tls,junos_local,ssh}.rs).                       *)
(*                                                                         *)
(* Bytes are abstracted to symbols; the delimiter is the real one and the  *)
(* search is real sub-sequence search, so bodies that contain proper       *)
(* prefixes of the delimiter and delimiters that straddle reads behave as  *)
(* in the code.  "p" and "s" stand for the XML that surrounds a body       *)
(* (they contain no "]"); the harness maps symbols to bytes.               *)
(*                                                                         *)
(* Two implementation-shaped receivers:                                    *)
(*   loop  (tls.rs, junos_local.rs): recv() searches its buffer from a     *)
(*         search offset, reads more, repeats                              *)
(*   pump  (ssh.rs): a background task appends each channel-data packet,   *)
(*         extracts complete messages and queues them; recv() dequeues     *)
(* Named deviations (how the code behaved before the fix: commits in       *)
(* known_findings.json) are boolean constants; TRUE = fixed behaviour.     *)
(***************************************************************************)
EXTENDS Naturals, Sequences, FiniteSets, TLC

Delim == <<"]", "]", ">", "]", "]", ">">>
DL == 6

RECURSIVE FindFrom(_, _)
(* index of the first delimiter in s starting at or after position i (1-based), 0 if none *)
FindFrom(s, i) == IF i + DL - 1 > Len(s) THEN 0
                  ELSE IF SubSeq(s, i, i + DL - 1) = Delim THEN i ELSE FindFrom(s, i + 1)

RECURSIVE Messages(_)
(* the unique split of a stream at delimiter ends: the complete messages, in order *)
Messages(s) == LET i == FindFrom(s, 1) IN
               IF i = 0 THEN <<>> ELSE <<SubSeq(s, 1, i + DL - 1)>> \o Messages(SubSeq(s, i + DL, Len(s)))

IsPrefixOf(a, b) == Len(a) <= Len(b) /\ SubSeq(b, 1, Len(a)) = a
Msg(body) == <<"p">> \o body \o <<"s">> \o Delim
(* the form used on the real transports: the surrounding XML before the body is two symbols, *)
(* so that a cut can also fall inside it                                                      *)
(* the start tag as five symbols: its 1st byte, bytes 2-3, bytes 4-5, and two halves of the rest -  *)
(* so that a cut can fall one to five bytes into a message                                          *)
Msg2(body) == <<"p", "p", "p", "p", "p">> \o body \o <<"s">> \o Delim
RECURSIVE Concat(_)
Concat(ms) == IF ms = <<>> THEN <<>> ELSE Head(ms) \o Concat(Tail(ms))
BodyOf(m) == SubSeq(m, 2, Len(m) - DL - 1)      \* strip p, s and the delimiter
BodyOf2(m) == SubSeq(m, 6, Len(m) - DL - 1)     \* same for Msg2
=============================================================================
