------------------------------ MODULE Session ------------------------------
(***************************************************************************)
(* NETCONF session layer of bgpfu-netconf (netconf/src/session.rs):        *)
(*   - rpc():  allocate message-id, lock the request map, send, register   *)
(*             the request as Pending, unlock, hand out a reply future     *)
(*   - recv(): the reply future: loop { lock rx; lock map; check own slot; *)
(*             unlock map; read one reply; lock map; park it; unlock both }*)
(*                                                                         *)
(* The model is implementation-shaped: one micro step per await point of   *)
(* the real code (operator FutStep / CallerStep), tokio's FIFO lock        *)
(* hand-off included.  `Run*` iterate the micro steps until the future     *)
(* would return Poll::Pending or is finished - that is one poll() of the   *)
(* real future, which is the grain at which the conformance harness drives *)
(* and observes the real code.  The same operators are used by             *)
(*   MCSession      (design check, micro-step interleaving = threads),     *)
(*   MCSessionPoll  (design check at poll grain, source of replay cases),  *)
(*   SessionTrace   (validation of executions recorded from the real code)*)
(*                                                                         *)
(* The contract (properties C05, C18, parts of C07/C14) is stated at the   *)
(* end over observable things only: ids put on the wire, replies pushed by *)
(* the server, results delivered to callers.                               *)
(***************************************************************************)
EXTENDS Naturals, Sequences, FiniteSets, TLC

CONSTANT N,           \* number of message ids the model may allocate
         SyncMap      \* TRUE: the code since fix "register before send" - the request map is behind a
                      \*   non-async mutex that is never held across an await: rpc() registers the
                      \*   request as Pending, then sends (removing the entry if the send fails);
                      \*   a reader parks a reply in the same poll that took it off the transport.
                      \* FALSE: the code as found - async mutex, held by rpc() across send()
Id == 1..N
CALLER == N + 1       \* lock-queue identity of the task inside rpc()

NoHeld == [id |-> 0, tag |-> 0]

(* one state of the session, as a record so that the step functions are plain operators *)
InitState ==
  [ lastId   |-> 0,
    slot     |-> [i \in Id |-> "none"],        \* none | pending | ready | complete
    parked   |-> [i \in Id |-> 0],             \* tag of the reply stored in a ready slot
    cpc      |-> "idle",                       \* idle | wantMap | send | sentwait
    cid      |-> 0,
    closeId  |-> 0,                            \* the call that was Session::close() (0: not called); it consumes the session
    sendMode |-> "free",                       \* free | before | after  (environment)
    rxHolder |-> 0,  rxq  |-> <<>>,
    mapHolder|-> 0,  mapq |-> <<>>,
    pc       |-> [i \in Id |-> "unborn"],      \* unborn|new|wantRx|wantMap1|reading|wantMap2|done|dropped
    held     |-> [i \in Id |-> NoHeld],        \* reply taken off the transport, not yet parked
    resKind  |-> [i \in Id |-> "none"],        \* none | ok | err
    resTag   |-> [i \in Id |-> 0],
    resErr   |-> [i \in Id |-> "none"],        \* notfound|complete|collision|transport|read
    wire     |-> <<>>,                         \* replies in flight: [id, tag, bad]
    damaged  |-> {},                           \* tags of replies whose header is intact but whose body is not well-formed
    closed   |-> FALSE,
    sent     |-> <<>>,                         \* ids delivered to the server, in order
    pushed   |-> <<>>,                         \* history: id of the reply with tag k (0 = garbage)
    stray    |-> {},                           \* tags of replies read by the client before their id was ever sent
    answered |-> {},
    cerr     |-> 0,                            \* number of rpc() calls that failed locally
    faulty   |-> FALSE,                        \* a protocol fault was injected by the peer
    drops    |-> 0,
    lost     |-> {} ]                          \* ids whose reply was held by a future when it was dropped

---------------------------------------------------------------------------
(* FIFO lock hand-off, as tokio::sync::Mutex does it *)
ReleaseRx(s)  == IF s.rxq = <<>> THEN [s EXCEPT !.rxHolder = 0]
                 ELSE [s EXCEPT !.rxHolder = Head(s.rxq), !.rxq = Tail(s.rxq)]
ReleaseMap(s) == IF s.mapq = <<>> THEN [s EXCEPT !.mapHolder = 0]
                 ELSE [s EXCEPT !.mapHolder = Head(s.mapq), !.mapq = Tail(s.mapq)]
InSeq(x, q) == \E k \in 1..Len(q) : q[k] = x
Without(q, x) == SelectSeq(q, LAMBDA y : y # x)

SentSet(s) == {s.sent[k] : k \in 1..Len(s.sent)}
(* ids a reply may legitimately carry: requests on the wire, plus the one an rpc() call in      *)
(* progress is about to put there (the client cannot order "reply arrived" against "request      *)
(* left" more finely than that)                                                                  *)
Outstanding(s) == SentSet(s) \cup (IF s.cpc # "idle" THEN {s.cid} ELSE {})

Finish(s, t, kind, tag, err) ==
  [s EXCEPT !.pc[t] = "done", !.resKind[t] = kind, !.resTag[t] = tag, !.resErr[t] = err,
            !.held[t] = NoHeld]

---------------------------------------------------------------------------
(* reply future of request t: can it take a micro step, and which *)
FutCanStep(s, t) ==
  CASE s.pc[t] \in {"new", "wantRx"} ->
         s.rxHolder = t \/ s.rxHolder = 0 \/ ~InSeq(t, s.rxq)
    [] s.pc[t] \in {"wantMap1", "wantMap2"} ->
         s.mapHolder = t \/ s.mapHolder = 0 \/ ~InSeq(t, s.mapq)
    [] s.pc[t] = "reading" -> s.wire # <<>> \/ s.closed
    [] OTHER -> FALSE

FutStep(s, t) ==
  CASE s.pc[t] \in {"new", "wantRx"} ->
         IF s.rxHolder = t THEN [s EXCEPT !.pc[t] = "wantMap1"]
         ELSE IF s.rxHolder = 0 THEN [s EXCEPT !.rxHolder = t, !.pc[t] = "wantMap1"]
         ELSE [s EXCEPT !.rxq = Append(@, t), !.pc[t] = "wantRx"]
    [] s.pc[t] = "wantMap1" ->
         IF s.mapHolder # t /\ s.mapHolder # 0
         THEN [s EXCEPT !.mapq = Append(@, t)]
         ELSE (* lock, check own slot, unlock: no await in between *)
           LET m == [s EXCEPT !.mapHolder = t] IN
           IF s.slot[t] = "ready"
           THEN ReleaseRx(ReleaseMap(
                  IF s.parked[t] \in s.damaged      \* the body is parsed by the owner, when it takes the reply
                  THEN Finish([m EXCEPT !.slot[t] = "complete"], t, "err", 0, "read")
                  ELSE Finish([m EXCEPT !.slot[t] = "complete"], t, "ok", s.parked[t], "none")))
           ELSE IF s.slot[t] = "pending"
           THEN ReleaseMap([m EXCEPT !.pc[t] = "reading"])
           ELSE IF s.slot[t] = "complete"
           THEN ReleaseRx(ReleaseMap(Finish(m, t, "err", 0, "complete")))
           ELSE ReleaseRx(ReleaseMap(Finish(m, t, "err", 0, "notfound")))
    [] s.pc[t] = "reading" ->
         IF s.wire = <<>>
         THEN ReleaseRx(Finish(s, t, "err", 0, "transport"))          \* closed
         ELSE LET r == Head(s.wire) w == [s EXCEPT !.wire = Tail(@)] IN
              IF r.bad THEN ReleaseRx(Finish(w, t, "err", 0, "read"))
              ELSE [w EXCEPT !.held[t] = [id |-> r.id, tag |-> r.tag], !.pc[t] = "wantMap2",
                             \* a reply is a stranger if, when the client takes it off the
                             \* transport, no request with its id has been sent and no rpc()
                             \* call that will use the id is in progress
                             !.stray = IF r.id \in Outstanding(s) THEN @ ELSE @ \cup {r.tag}]
    [] s.pc[t] = "wantMap2" ->
         IF s.mapHolder # t /\ s.mapHolder # 0
         THEN [s EXCEPT !.mapq = Append(@, t)]
         ELSE
           LET m == [s EXCEPT !.mapHolder = t]  i == s.held[t].id IN
           IF i \notin Id \/ s.slot[i] = "none"
           THEN ReleaseRx(ReleaseMap(Finish(m, t, "err", 0, "notfound")))
           ELSE IF s.slot[i] = "complete"
           THEN ReleaseRx(ReleaseMap(Finish(m, t, "err", 0, "complete")))
           ELSE IF s.slot[i] = "ready"
           THEN ReleaseRx(ReleaseMap(Finish(m, t, "err", 0, "collision")))
           ELSE ReleaseRx(ReleaseMap(
                  [m EXCEPT !.slot[i] = "ready", !.parked[i] = s.held[t].tag,
                            !.held[t] = NoHeld, !.pc[t] = "wantRx"]))
    [] OTHER -> s

(* dropping a suspended (or never polled) reply future *)
FutLive(s, t) == s.pc[t] \notin {"unborn", "done", "dropped"}
(* with the non-async map lock there is no await point between taking a reply off the transport  *)
(* and parking it (nor between the lock and the check of the own slot)                           *)
FutDroppable(s, t) == FutLive(s, t) /\ (SyncMap => s.pc[t] \notin {"wantMap1", "wantMap2"})
DropFut(s, t) ==
  LET a == [s EXCEPT !.pc[t] = "dropped", !.held[t] = NoHeld,
                     !.rxq = Without(@, t), !.mapq = Without(@, t), !.drops = @ + 1,
                     !.lost = IF s.held[t].id = 0 THEN @ ELSE @ \cup {s.held[t].id}]
      b == IF a.mapHolder = t THEN ReleaseMap(a) ELSE a
  IN  IF b.rxHolder = t THEN ReleaseRx(b) ELSE b

---------------------------------------------------------------------------
(* the task that calls rpc() *)
CallerCanStep(s) ==
  CASE s.cpc = "wantMap"  -> SyncMap \/ s.mapHolder = CALLER \/ s.mapHolder = 0 \/ ~InSeq(CALLER, s.mapq)
    [] s.cpc = "send"     -> s.sendMode # "before" \/ s.closed
    [] s.cpc = "sentwait" -> s.sendMode # "after"
    [] OTHER -> FALSE

Register(s) ==   \* send finished: insert Pending, unlock the map, the reply future exists
  ReleaseMap([s EXCEPT !.slot[s.cid] = "pending", !.pc[s.cid] = "new", !.cpc = "idle", !.cid = 0])
Born(s) ==       \* SyncMap: send finished, the request is registered already: the reply future exists
  [s EXCEPT !.pc[s.cid] = "new", !.cpc = "idle", !.cid = 0]

CallerStepSync(s) ==
  CASE s.cpc = "wantMap" -> [s EXCEPT !.slot[s.cid] = "pending", !.cpc = "send"]   \* lock, insert, unlock: no await
    [] s.cpc = "send" ->
         IF s.closed
         THEN [s EXCEPT !.slot[s.cid] = "none", !.cpc = "idle", !.cid = 0, !.cerr = @ + 1]   \* entry removed again
         ELSE IF s.sendMode = "free"
         THEN Born([s EXCEPT !.sent = Append(@, s.cid)])
         ELSE [s EXCEPT !.sent = Append(@, s.cid), !.cpc = "sentwait"]     \* "after"
    [] s.cpc = "sentwait" -> Born(s)
    [] OTHER -> s

CallerStepAsync(s) ==
  CASE s.cpc = "wantMap" ->
         IF s.mapHolder # CALLER /\ s.mapHolder # 0
         THEN [s EXCEPT !.mapq = Append(@, CALLER)]
         ELSE [s EXCEPT !.mapHolder = CALLER, !.cpc = "send"]
    [] s.cpc = "send" ->
         IF s.closed
         THEN ReleaseMap([s EXCEPT !.cpc = "idle", !.cid = 0, !.cerr = @ + 1])
         ELSE IF s.sendMode = "free"
         THEN Register([s EXCEPT !.sent = Append(@, s.cid)])
         ELSE [s EXCEPT !.sent = Append(@, s.cid), !.cpc = "sentwait"]     \* "after"
    [] s.cpc = "sentwait" -> Register(s)
    [] OTHER -> s
CallerStep(s) == IF SyncMap THEN CallerStepSync(s) ELSE CallerStepAsync(s)

(* the rpc() future itself is dropped while suspended (caller-side cancellation): the map lock   *)
(* is released; a request that already reached the wire stays unregistered (SyncMap: it stays    *)
(* registered and nobody will ever collect its reply).  Treated as a fault for the progress part *)
(* of the contract, never for the safety part.                                                   *)
DropCaller(s) ==
  LET a == [s EXCEPT !.cpc = "idle", !.cid = 0, !.mapq = Without(@, CALLER), !.faulty = TRUE]
  IN  IF s.mapHolder = CALLER THEN ReleaseMap(a) ELSE a

(* rpc() is called: the id is consumed even when the request cannot be built *)
CanStartRpc(s) == s.cpc = "idle" /\ s.lastId < N /\ s.closeId = 0
StartRpc(s, good) ==
  IF good THEN [s EXCEPT !.lastId = @ + 1, !.cid = s.lastId + 1, !.cpc = "wantMap"]
  ELSE [s EXCEPT !.lastId = @ + 1, !.cerr = @ + 1]

(* Session::close(self): one more request (<close-session>) in the pipeline; the future of its reply owns the      *)
(* session, so no call can follow it - and dropping that future is dropping a reply future like any other: the     *)
(* reply futures that are outstanding share the request table and the receive side and still complete             *)
StartClose(s) == [StartRpc(s, TRUE) EXCEPT !.closeId = s.lastId + 1]

---------------------------------------------------------------------------
(* one poll() = micro steps until the future would return Pending *)
RECURSIVE RunFut(_, _)
RunFut(s, t) == IF FutCanStep(s, t) THEN RunFut(FutStep(s, t), t) ELSE s
RECURSIVE RunCaller(_)
RunCaller(s) == IF CallerCanStep(s) THEN RunCaller(CallerStep(s)) ELSE s

---------------------------------------------------------------------------
(* the peer *)
Tag(s) == Len(s.pushed) + 1
PushReply(s, i) ==
  [s EXCEPT !.wire = Append(@, [id |-> i, tag |-> Tag(s), bad |-> FALSE]),
            !.pushed = Append(@, i)]
Reply(s, i)   == [PushReply(s, i) EXCEPT !.answered = @ \cup {i}]
Stray(s, i)   == [PushReply(s, i) EXCEPT !.faulty = TRUE]
Dup(s, i)     == [PushReply(s, i) EXCEPT !.faulty = TRUE]
Garbage(s)    == [s EXCEPT !.wire = Append(@, [id |-> 0, tag |-> Tag(s), bad |-> TRUE]),
                           !.pushed = Append(@, 0), !.faulty = TRUE]
Close(s)      == [s EXCEPT !.closed = TRUE, !.faulty = TRUE]
(* the answer to request i with an intact <rpc-reply message-id=i> start tag and a body that is not    *)
(* well-formed: it belongs to i, whoever takes it off the transport; only i's caller sees the error *)
BadBody(s, i) == [PushReply(s, i) EXCEPT !.answered = @ \cup {i}, !.damaged = @ \cup {Tag(s)}]
(* two replies in one frame (a lost delimiter): the frame is filed under the id of its first element,   *)
(* the full parse sees another id: the owner of the first gets a read error, never the other's content *)
Glued(s, i)   == [BadBody(s, i) EXCEPT !.faulty = TRUE]
CanReply(s, i) == i \in SentSet(s) /\ i \notin s.answered
CanStray(s, i) == i \notin SentSet(s)          \* an id that is not outstanding (maybe not yet used)
CanDup(s, i)   == i \in s.answered

---------------------------------------------------------------------------
(* Contract, over observables *)
OwnReply(s)   == \A t \in Id : s.resKind[t] = "ok" =>
                    /\ s.resTag[t] \in 1..Len(s.pushed)
                    /\ s.pushed[s.resTag[t]] = t
AtMostOnce(s) == \A t, u \in Id : (t # u /\ s.resKind[t] = "ok" /\ s.resKind[u] = "ok")
                                     => s.resTag[t] # s.resTag[u]
NoStranger(s) == \A t \in Id : s.resKind[t] = "ok" => s.resTag[t] \notin s.stray
UniqueIds(s)  == \A j, k \in 1..Len(s.sent) : j < k => s.sent[j] < s.sent[k]
Safety(s)     == OwnReply(s) /\ AtMostOnce(s) /\ NoStranger(s) /\ UniqueIds(s)

(* nothing can make progress any more although the peer answered every request *)
Quiet(s) == /\ ~CallerCanStep(s) /\ \A t \in Id : ~FutCanStep(s, t)
AllAnswered(s) == \A i \in SentSet(s) : i \in s.answered
(* C05 progress / C18 survivors, as a safety property of quiescent states:            *)
(* with a responsive, fault-free peer every future that was not dropped has completed  *)
(* with its own reply                                                                  *)
NoOneLeftWaiting(s) ==
  (Quiet(s) /\ AllAnswered(s) /\ ~s.faulty /\ s.sendMode = "free")
     => \A t \in Id : FutLive(s, t) => s.lost # {}
(* (once a reply is lost its owner reads forever while holding the receive lock, so every other  *)
(* future queues behind it: one loss can strand all survivors)                                  *)
(* `lost` is a ghost: it records the one way the code at HEAD can lose a reply (a reply future    *)
(* dropped between taking another request's reply off the transport and parking it, which needs   *)
(* the map lock to be held by an rpc() suspended in send).  KnownLoss names that deviation; the    *)
(* strict property is NoOneLeftWaiting /\ NoLoss.                                                  *)
NoLoss(s) == s.lost = {}
Dmg(s, t) == \E k \in s.damaged : s.pushed[k] = t
SurvivorsOk(s) ==
  (~s.faulty) => \A t \in Id : s.pc[t] = "done" => (s.resKind[t] = "ok" \/ Dmg(s, t))
(* a reply with a damaged body fails the request it answers and nobody else *)
DamageStaysWithOwner(s) ==
  (~s.faulty) => \A t \in Id : s.pc[t] = "done" => ((s.resKind[t] = "err") = Dmg(s, t))
(* C07 at session level: after the peer closed, a quiescent state has no waiting future *)
CloseIsError(s) ==
  (Quiet(s) /\ s.closed /\ s.sendMode = "free") => \A t \in Id : ~FutLive(s, t)

=============================================================================
