------------------------------- MODULE Junos -------------------------------
(***************************************************************************)
(* Reference model of the part of Junos the agent relies on.  This is the  *)
(* trusted oracle of C01/C02/C03 and is deliberately small.                *)
(*                                                                         *)
(* Ephemeral configuration: a sequence of policy-statements                *)
(*   [name, reject, terms]   terms: sequence of                            *)
(*   [name, family ("none" | "inet" | "inet6"), filters (sequence of      *)
(*    "address range" strings, keyed by address AND range), accept]        *)
(* Load(eph, upd): `load-configuration action="merge"` with               *)
(*   delete="delete" on policy-statement / term / route-filter.            *)
(* Assumptions (DESIGN.md section 10): J1 a term loaded with only its name *)
(* creates an empty term; J2 route-filters are keyed by address and match  *)
(* type/value; J3 a term without `from` matches every route, one with only *)
(* a family matches the whole family, a term without terminating action    *)
(* falls through; J4 uncommitted loads vanish with the session; J5 delete  *)
(* of an absent object is not an error.                                    *)
(***************************************************************************)
EXTENDS Naturals, Sequences, FiniteSets, TLC

SeqSet(q) == {q[k] : k \in 1..Len(q)}
Index(q, P(_)) == IF \E k \in 1..Len(q) : P(q[k]) THEN CHOOSE k \in 1..Len(q) : P(q[k]) /\ \A j \in 1..(k-1) : ~P(q[j]) ELSE 0
Remove(q, P(_)) == SelectSeq(q, LAMBDA x : ~P(x))
ReplaceAt(q, k, x) == [j \in 1..Len(q) |-> IF j = k THEN x ELSE q[j]]

EmptyTerm(n) == [name |-> n, family |-> "none", filters |-> <<>>, accept |-> FALSE]
EmptyPolicy(n) == [name |-> n, reject |-> FALSE, terms |-> <<>>]

RECURSIVE AddAll(_, _)
AddAll(fs, adds) == IF adds = <<>> THEN fs
                    ELSE AddAll(IF Head(adds) \in SeqSet(fs) THEN fs ELSE Append(fs, Head(adds)), Tail(adds))

(* merge one <term> of an update into a term sequence *)
MergeTerm(terms, t) ==
  IF t.delete THEN Remove(terms, LAMBDA x : x.name = t.name)
  ELSE LET k  == Index(terms, LAMBDA x : x.name = t.name)
           ts == IF k = 0 THEN Append(terms, EmptyTerm(t.name)) ELSE terms
           kk == IF k = 0 THEN Len(ts) ELSE k
           old == ts[kk]
           kept == SelectSeq(old.filters, LAMBDA f : f \notin SeqSet(t.dels))
           new == [name |-> old.name,
                   family |-> IF t.family # "none" THEN t.family ELSE old.family,
                   filters |-> AddAll(kept, t.adds),
                   accept |-> old.accept \/ t.accept]
       IN ReplaceAt(ts, kk, new)

RECURSIVE MergeTerms(_, _)
MergeTerms(terms, uts) == IF uts = <<>> THEN terms ELSE MergeTerms(MergeTerm(terms, Head(uts)), Tail(uts))

(* merge one <policy-statement> of an update into the configuration *)
LoadPolicy(eph, p) ==
  IF p.delete THEN Remove(eph, LAMBDA x : x.name = p.policy)
  ELSE LET k == Index(eph, LAMBDA x : x.name = p.policy)
           e == IF k = 0 THEN Append(eph, EmptyPolicy(p.policy)) ELSE eph
           kk == IF k = 0 THEN Len(e) ELSE k
           old == e[kk]
           new == [name |-> old.name, reject |-> old.reject \/ p.reject, terms |-> MergeTerms(old.terms, p.terms)]
       IN ReplaceAt(e, kk, new)

RECURSIVE LoadAll(_, _)
LoadAll(eph, ps) == IF ps = <<>> THEN eph ELSE LoadAll(LoadPolicy(eph, Head(ps)), Tail(ps))
Load(eph, upd) == LoadAll(eph, upd.policies)
(* load action: merge (and replace without replace= tags) merges; override / update make the loaded   *)
(* configuration the whole configuration of the instance                                           *)
LoadAct(eph, upd, action) == IF action \in {"override", "update"} THEN Load(<<>>, upd) ELSE Load(eph, upd)

Names(eph) == {eph[k].name : k \in 1..Len(eph)}
Get(eph, n) == eph[Index(eph, LAMBDA x : x.name = n)]

(* ---- policy evaluation: what a policy-statement accepts, per family ("inet" / "inet6") ---- *)
(* den: function from filter strings to [atoms : set of universe prefixes, extra : matches       *)
(* something outside the universe]                                                                *)
TermMatchesFamily(t, f) == t.family = "none" \/ t.family = f
(* atoms accepted: union over accepting terms (there are no rejecting terms in this shape, so     *)
(* first-match evaluation is the union)                                                           *)
AcceptAtoms(p, f, den) ==
  UNION {UNION {den[x].atoms : x \in SeqSet(p.terms[k].filters)} :
           k \in {k \in 1..Len(p.terms) : p.terms[k].accept /\ TermMatchesFamily(p.terms[k], f)}}
AcceptsOutsideUniverse(p, den) ==
  \E k \in 1..Len(p.terms) : p.terms[k].accept /\ \E x \in SeqSet(p.terms[k].filters) : den[x].extra
(* fail-open: an accepting term that is not confined to one family or has no explicit prefix     *)
(* range, or no unconditional reject at the end                                                   *)
FailOpen(p) ==
  \/ ~p.reject
  \/ \E k \in 1..Len(p.terms) : p.terms[k].accept /\ (p.terms[k].family = "none" \/ p.terms[k].filters = <<>>)
(* a term of the wrong family inside the family-named term, i.e. accept term "inet" matching inet6 *)
FamilyConfused(p) ==
  \E k \in 1..Len(p.terms) : p.terms[k].accept /\ p.terms[k].family \notin {"inet", "inet6"}

(* the agent's own reader of installed policies accepts exactly this shape (fetch.rs):            *)
(* every term has a name equal to its family, family in {inet, inet6}, at most one term per       *)
(* family, `then accept`, and the policy ends in reject (otherwise it is skipped, not an error)   *)
Readable(p) ==
  /\ \A k \in 1..Len(p.terms) : LET t == p.terms[k] IN
        t.accept /\ t.family \in {"inet", "inet6"} /\ t.name = t.family
  /\ \A j, k \in 1..Len(p.terms) : j # k => p.terms[j].family # p.terms[k].family
=============================================================================
