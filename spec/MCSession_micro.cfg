SPECIFICATION Spec
CONSTANTS N = 3 Grain = "micro" MaxDrops = 0 Faults = FALSE Modes = {"free","after"} BadRpc = TRUE MaxPush = 3 DropHolding = FALSE
INVARIANTS InvSafety InvProgress InvSurvivor InvNoLoss
CHECK_DEADLOCK FALSE
