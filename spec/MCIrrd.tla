------------------------------- MODULE MCIrrd -------------------------------
(* Design check of the IRRd pipeline protocol for every history of resolver   *)
(* calls over a database that has every kind of answer: two objects for one   *)
(* filter-set (the second is never read by the resolver), an unusable object  *)
(* before the usable one, unknown names, empty lists, members whose route     *)
(* queries fail, nested fan-out.                                               *)
EXTENDS Irrd
MCCalls == {[k |-> "fset", n |-> "F2"], [k |-> "fset", n |-> "Fbad"], [k |-> "fset", n |-> "Fx"], [k |-> "fset", n |-> "Fe"],
            [k |-> "asset", n |-> "S1"], [k |-> "asset", n |-> "Sx"], [k |-> "asset", n |-> "S0"],
            [k |-> "rset", n |-> "R1"], [k |-> "rset", n |-> "Rx"], [k |-> "as", n |-> "A1"], [k |-> "as", n |-> "A2"]}
MCAnswerOp(q) ==
  CASE q.c = "n" -> [st |-> "C", items |-> <<>>]
    [] q.c = "m" /\ q.n = "F2" -> [st |-> "A", items |-> <<"good", "good">>]
    [] q.c = "m" /\ q.n = "Fbad" -> [st |-> "A", items |-> <<"bad", "good", "bad">>]
    [] q.c = "m" /\ q.n = "Fe" -> [st |-> "E", items |-> <<>>]          \* "not unique"
    [] q.c = "m" -> [st |-> "D", items |-> <<>>]
    [] q.c = "s" -> [st |-> "C", items |-> <<>>]
    [] q.c = "i" /\ q.n = "S1" -> [st |-> "A", items |-> <<"A1", "A2">>]
    [] q.c = "i" /\ q.n = "S0" -> [st |-> "C", items |-> <<>>]
    [] q.c = "i" /\ q.n = "R1" -> [st |-> "A", items |-> <<"p1", "p2">>]
    [] q.c = "i" /\ q.n = "Rx" -> [st |-> "E", items |-> <<>>]
    [] q.c = "i" -> [st |-> "D", items |-> <<>>]
    [] q.c = "g" /\ q.n = "A1" -> [st |-> "A", items |-> <<"p3">>]
    [] q.c = "6" /\ q.n = "A1" -> [st |-> "D", items |-> <<>>]
    [] q.c = "g" /\ q.n = "A2" -> [st |-> "F", items |-> <<>>]
    [] q.c = "6" /\ q.n = "A2" -> [st |-> "A", items |-> <<"p4", "p5">>]
    [] OTHER -> [st |-> "D", items |-> <<>>]
Names == {"id", "F2", "Fbad", "Fx", "Fe", "S1", "Sx", "S0", "R1", "Rx", "A1", "A2"}
MCDomain == {Q(c, n) : c \in {"n", "m", "i", "g", "6"}, n \in Names} \cup {Q("s", "one"), Q("s", "all")}
MCAns == [q \in MCDomain |-> MCAnswerOp(q)]
(* with every source selected, A1 has one more route and S1 one more member *)
MCAnsAll == [q \in MCDomain |->
               IF q = Q("g", "A1") THEN [st |-> "A", items |-> <<"p3", "p9">>]
               ELSE IF q = Q("i", "S1") THEN [st |-> "A", items |-> <<"A1", "A2", "Ax">>]
               ELSE MCAnswerOp(q)]
=============================================================================
