----------------------------- MODULE MCSession -----------------------------
(* Design check of Session.tla.  Grain = "micro": every await point is an   *)
(* interleaving point (futures on different threads); Grain = "poll": one    *)
(* action is one poll() of a future (single-threaded executor, and the grain *)
(* at which the harness drives the real code).                               *)
EXTENDS Session
CONSTANTS Grain, MaxDrops, Faults, Modes, BadRpc, MaxPush, DropHolding
VARIABLE st
vars == <<st>>

Init == st = InitState

StepFut(t) == /\ FutCanStep(st, t)
              /\ st' = IF Grain = "micro" THEN FutStep(st, t) ELSE RunFut(st, t)
StepCaller == /\ CallerCanStep(st)
              /\ st' = IF Grain = "micro" THEN CallerStep(st) ELSE RunCaller(st)
Start(good) == /\ CanStartRpc(st) /\ (good \/ BadRpc)
               /\ st' = IF Grain = "micro" THEN StartRpc(st, good) ELSE RunCaller(StartRpc(st, good))
Drop(t) == /\ FutDroppable(st, t) /\ st.drops < MaxDrops
           /\ (DropHolding \/ st.held[t].id = 0)
           /\ st' = DropFut(st, t)
DropC == /\ Faults /\ st.cpc # "idle" /\ st' = DropCaller(st)
CanPush == Len(st.pushed) < MaxPush
DoReply(i) == CanPush /\ CanReply(st, i) /\ st' = Reply(st, i)
DoStray(i) == Faults /\ CanPush /\ CanStray(st, i) /\ st' = Stray(st, i)
DoDup(i)   == Faults /\ CanPush /\ CanDup(st, i) /\ st' = Dup(st, i)
DoGarbage  == Faults /\ CanPush /\ st' = Garbage(st)
DoGlued(i) == Faults /\ CanPush /\ CanReply(st, i) /\ st' = Glued(st, i)
DoBadBody(i) == Faults /\ CanPush /\ CanReply(st, i) /\ st' = BadBody(st, i)
DoClose    == Faults /\ ~st.closed /\ st' = Close(st)
SetMode(m) == m \in Modes /\ m # st.sendMode /\ st' = [st EXCEPT !.sendMode = m]

Next == \/ \E t \in Id : StepFut(t) \/ Drop(t)
        \/ StepCaller \/ Start(TRUE) \/ Start(FALSE)
        \/ \E i \in Id : DoReply(i) \/ DoDup(i) \/ DoBadBody(i) \/ DoGlued(i)
        \/ \E i \in 1..(N+1) : DoStray(i)
        \/ DoGarbage \/ DoClose \/ DropC
        \/ \E m \in {"free", "before", "after"} : SetMode(m)

Fairness == /\ \A t \in Id : WF_vars(StepFut(t))
            /\ WF_vars(StepCaller) /\ WF_vars(Start(TRUE))
            /\ \A i \in Id : WF_vars(DoReply(i))
            /\ WF_vars(SetMode("free"))
Spec == Init /\ [][Next]_vars /\ Fairness

InvSafety   == Safety(st)
InvProgress == NoOneLeftWaiting(st)
InvSurvivor == SurvivorsOk(st) /\ DamageStaysWithOwner(st)
InvNoLoss   == NoLoss(st)
InvClose    == CloseIsError(st)
(* liveness form of C05 progress: without faults, drops and with the send side eventually free, *)
(* every issued request's future completes                                                      *)
AllDone == <>[](\A t \in Id : st.pc[t] \in {"unborn", "done", "dropped"})
=============================================================================
