------------------------------ MODULE AgentGen ------------------------------
(* TLC enumerates the abstract case spaces of the agent-level checks; the     *)
(* scenario builder (tools/agentgen.py) concretises them (policy names,       *)
(* prefixes, IRR objects, router configuration).                              *)
EXTENDS Naturals, Sequences, FiniteSets, TLC, Json
CONSTANTS Family, Depth

(* a, b: adjacent /10s (aggregate to one range); r9: both /9s, r11: all eight /11s of the /8 -   *)
(* after aggregation r9 and r11 are two route-filters with the SAME address and different ranges;  *)
(* h11: the four /11s of the lower /9 - aggregated, 10.0.0.0/9^11-11, which has the same address   *)
(* and the same length range as r11 (10.0.0.0/8^11-11) and differs from it only in the length of  *)
(* the covering prefix (h11 together with r11 is r11)                                              *)
A4 == {"a", "b", "r9", "r11", "h11"}
(* c: one /33; r33: both /33s of the /32 - aggregated, one route-filter on the /32 with the range /33-/33 *)
A6 == {"c", "r33"}
Targets == {[v4 |-> s4, v6 |-> s6] : s4 \in SUBSET A4, s6 \in SUBSET A6}
(* status of one policy in one run: not marked as managed any more, or marked with a target *)
Status == {[marked |-> FALSE, v4 |-> {}, v6 |-> {}]} \cup {[marked |-> TRUE, v4 |-> t.v4, v6 |-> t.v6] : t \in Targets}
(* C01/C02: every history of length Depth of one policy (policies are independent; the builder   *)
(* packs many histories into one router)                                                         *)
(* (histories of length 3 and more over a smaller set of targets: 129^3 is more than TLC will enumerate) *)
StatusS == {[marked |-> FALSE, v4 |-> {}, v6 |-> {}]}
           \cup {[marked |-> TRUE, v4 |-> s4, v6 |-> s6] : s4 \in SUBSET {"a", "b", "r9", "h11"}, s6 \in SUBSET {"c"}}
Histories == IF Depth <= 2 THEN [1..Depth -> Status] ELSE [1..Depth -> StatusS]

(* C04: N pipelined loads, a fault of some kind at some request kind (index only for loads) *)
Kinds == {"open", "get-running", "get-candidate", "load", "commit", "close-db", "close-session"}
FaultKinds == {"rpc-error", "malformed", "wrong-id", "close-before", "close-after", "no-ok", "junos-error",
               (* other shapes of an error reply: next to the positive indication (either order), after a warning, *)
               (* with the base namespace bound to a prefix                                                       *)
               "error+ok", "ok+error", "warning+error", "prefixed-error",
               (* ... with warnings after the error; with the other error-tags of RFC 6241 appendix A; results that count *)
               (* zero errors and say nothing else                                                                       *)
               "error+warning", "error+warning+warning", "tag:data-missing", "tag:data-exists", "tag:in-use", "tag:access-denied",
               "tag:unknown-element", "no-ok-count0",
               (* not a fault: a positive reply that is overtaken by the reply to the next request *)
               "late-ok"}
FaultCases ==
  {[n |-> n, target |-> "none", index |-> 0, kind |-> "none"] : n \in 0..3}
  \cup {[n |-> n, target |-> t, index |-> 0, kind |-> k] : n \in 0..3, t \in Kinds \ {"load"}, k \in FaultKinds}
  \cup {[n |-> n, target |-> "load", index |-> i, kind |-> k] : n \in 1..3, i \in 1..3, k \in FaultKinds \cup {"delayed-error"}}
FaultOk(c) == /\ (c.target = "load" => c.index <= c.n)
              /\ (c.kind = "delayed-error" => c.index < c.n)        \* released by a later load
              /\ (c.kind = "no-ok" => c.target \in {"load", "commit", "close-session"})
              /\ (c.kind = "no-ok-count0" => c.target = "load")
              /\ (c.kind = "junos-error" => c.target = "commit")     \* <commit-results> with the error inside <routing-engine>

(* C03 / C15: evaluation outcome classes of a policy, and whether it is installed already *)
(* sunk-then-fail: an expression one operand of which gets an error that the evaluator sinks (route query   *)
(* of an AS answered F) and another operand of which fails the evaluation (unknown as-set)                 *)
EvalClass == {"ok", "unknown-as-set", "error-E", "error-F", "malformed-annotation", "peeras", "aspath-regex", "attr-match", "sunk-then-fail",
              (* the unsupported construct sits in the filter-set the policy names, not in its own expression *)
              "fset-regex", "fset-peeras", "fset-attr"}
C03Cases == {[installed |-> i, class |-> c] : i \in BOOLEAN, c \in {"unknown-as-set", "error-E", "error-F", "malformed-annotation",
                                                                      "peeras", "aspath-regex", "attr-match", "fset-regex", "fset-peeras"}}
(* ... installed without any prefixes (what the agent installs for a set that evaluates to nothing): still installed, still managed *)
C03EmptyCases == {[installed |-> TRUE, empty |-> TRUE, class |-> c] : c \in {"unknown-as-set", "error-E", "error-F", "peeras", "fset-regex"}}
C15Cases == {q \in UNION {[1..k -> EvalClass \ {"malformed-annotation"}] : k \in 2..3} :
               (\E i \in 1..Len(q) : q[i] # "ok") /\ (\E i \in 1..Len(q) : q[i] = "ok")}
            (* ... and sets none of whose members can be evaluated: the run has other work (an orphan to delete) and *)
            (* does not abort                                                                                        *)
            \cup UNION {[1..k -> EvalClass \ {"malformed-annotation", "ok"}] : k \in 1..2}

(* C16: shape of a policy-statement of the running configuration *)
Active == {"absent", "true", "false"}
Comment == {"none", "other", "fltr", "fltr-nospace", "fltr-bare", "fltr-bad", "fltr-empty", "prefix-only-similar",
            "fltr-doublestar", "fltr-slashes", "fltr-unterminated",       \* other decorations of the same annotation
            (* an expression that goes on on the next line of the comment (a line that begins with a blank, a tab   *)
            (* or "+" continues the expression): broken before an operator, after one, and with "+"                  *)
            "fltr-wrapped", "fltr-wrapped-after-op", "fltr-wrapped-plus"}
Body == {"reject", "terms+reject", "accept", "empty",
         (* other content that is deactivated is other content all the same *)
         "reject+inactive-term", "inactive-term+reject"}
AttrOrder == {"comment-first", "active-first"}
(* the prefix the jcmd namespace is bound to: as Junos writes it, another one, two prefixes for the one namespace *)
NsPrefix == {"jcmd", "other", "two"}
Shapes == {[active |-> a, comment |-> c, body |-> b, order |-> o, dupxmlns |-> d, extra |-> x, nspfx |-> "jcmd"] :
             a \in Active, c \in Comment, b \in Body, o \in AttrOrder, d \in BOOLEAN, x \in BOOLEAN}
          \cup {[active |-> a, comment |-> c, body |-> b, order |-> o, dupxmlns |-> FALSE, extra |-> FALSE, nspfx |-> n] :
             a \in Active, c \in {"none", "fltr", "fltr-bad", "other"}, b \in {"reject", "terms+reject"}, o \in AttrOrder, n \in NsPrefix \ {"jcmd"}}
ParseableComment(c) == c \in {"fltr", "fltr-nospace", "fltr-bare", "fltr-doublestar", "fltr-slashes", "fltr-unterminated",
                              "fltr-wrapped", "fltr-wrapped-after-op", "fltr-wrapped-plus"}
MarkedComment(c) == ParseableComment(c) \/ c \in {"fltr-bad", "fltr-empty"}
Managed(sh) == sh.active # "false" /\ ParseableComment(sh.comment) /\ sh.body = "reject"
Marked(sh) == sh.active # "false" /\ MarkedComment(sh.comment)
ShapeCases == {[shape |-> sh, sel |-> Managed(sh), marked |-> Marked(sh)] : sh \in Shapes}

(* C16 over histories: what one statement (one name) looks like in consecutive running configurations read by   *)
(* ONE agent process.  Selection is a function of the configuration that is read, not of the ones read before. *)
SClass == {"valid1", "valid2", "malformed", "inactive", "otherbody", "gone", "plain"}
ShapeHistories == [1..(3 + Depth) -> SClass]

RECURSIVE SetToSeq(_)
SetToSeq(S) == IF S = {} THEN <<>> ELSE LET x == CHOOSE y \in S : TRUE IN <<x>> \o SetToSeq(S \ {x})
StatusJ(st) == [marked |-> st.marked, v4 |-> SetToSeq(st.v4), v6 |-> SetToSeq(st.v6)]

(* C13 for configuration data: the router's replies in every composition of information-preserving
   rewrites (Depth = 0: each single rewrite, none and all of them; Depth = 1: every subset) *)
StyleFlags == {"pfx", "ws", "pad", "cmt", "attr", "decl", "empt"}
StyleCases == (IF Depth = 0 THEN {{}} \cup {{f} : f \in StyleFlags} \cup {StyleFlags} \cup {StyleFlags \ {f} : f \in {"pfx", "empt"}}
               ELSE SUBSET StyleFlags)
              (* a comment in the middle of token-valued text (names, prefixes, ranges), on its own *)
              \cup {{"cmtmid"}}
              (* the jcmd prefix declared once on the root instead of on every statement; CR LF and bare CR line ends *)
              \cup {{"nsup"}, {"nsup", "pfx"}, {"nsup", "attr"}, {"crlf", "ws"}, {"crlf", "ws", "pad"}, {"cr", "ws", "pad"}, {"cr", "pad"}}

(* C14 for the agent: every positive reply of the router damaged in every way of the mutation grammar *)
Mutations == {"trunc-half", "trunc-tag", "trunc-attr", "dup-statement", "dup-name", "dup-root", "huge-int", "range-reversed",
              "range-junk", "bad-prefix", "family-swapped", "family-unknown", "wrong-ns", "no-ns", "bad-utf8", "nul-byte", "deep",
              "deep-in-data", "huge-comment", "text-for-element", "unknown-element", "mismatched-end", "entity", "cdata", "doctype",
              "empty", "only-space", "not-xml", "lt-only", "two-replies"}
GarbleTargets == {"open", "get-running", "get-candidate", "load", "commit", "close-db", "close-session"}
(* systematic: the reply cut after its N-th tag, and with its N-th element removed *)
PositionCases == {[target |-> t, index |-> 0, kind |-> "mut:trunc@" \o ToString(i)] : t \in {"get-running", "get-candidate"}, i \in 0..(IF Depth = 0 THEN 69 ELSE 139)}
                 \cup {[target |-> t, index |-> 0, kind |-> "mut:del@" \o ToString(i)] : t \in {"get-running", "get-candidate"}, i \in 0..(IF Depth = 0 THEN 34 ELSE 69)}
(* "absurd numbers": the N-th number of the reply (in attribute values and in text alike) replaced by 2^63, 2^64-1, *)
(* forty digits, a negative one                                                                                  *)
NumberCases == {[target |-> t, index |-> 0, kind |-> "mut:num" \o v \o "@" \o ToString(i)] :
                  t \in {"get-running", "get-candidate"}, v \in {"63", "64", "40", "neg"}, i \in 0..(IF Depth = 0 THEN 24 ELSE 99)}
GarbleCases == PositionCases \cup NumberCases \cup {[target |-> t, index |-> IF t = "load" THEN i ELSE 0, kind |-> "mut:" \o m] :
                   t \in (IF Depth = 0 THEN {"get-running", "get-candidate", "load"} ELSE GarbleTargets), m \in Mutations, i \in 1..2}

(* C02 "for all installed states": states in the ephemeral instance that the agent did not write itself *)
ForeignShapes == {"extra-term-other-family", "extra-term-no-from", "term-named-differently", "term-without-family",
                  "two-terms-one-family", "no-trailing-reject", "no-trailing-reject-extra-filters", "term-without-then",
                  "reject-only", "own-shape", "term-without-filters", "both-terms-without-filters",
                  "exact-filter", "orlonger-filter", "upto-filter"}
ForeignCases == {[shape |-> sh, target |-> t] : sh \in ForeignShapes, t \in {"same", "other", "empty", "unmarked"}}

Out ==
  CASE Family = "hist"  -> ToJson([cases |-> {[k \in 1..Depth |-> StatusJ(h[k])] : h \in Histories}])
    [] Family = "fault" -> ToJson([cases |-> {c \in FaultCases : FaultOk(c)}])
    [] Family = "c03"   -> ToJson([cases |-> C03Cases \cup C03EmptyCases])
    [] Family = "c15"   -> ToJson([cases |-> C15Cases])
    [] Family = "shape" -> ToJson([cases |-> ShapeCases])
    [] Family = "shapehist" -> ToJson([cases |-> ShapeHistories])
    [] Family = "garble" -> ToJson([cases |-> GarbleCases])
    [] Family = "foreign" -> ToJson([cases |-> ForeignCases])
    [] Family = "style" -> ToJson([cases |-> StyleCases])
ASSUME PrintT(<<"GEN", Out>>)
VARIABLE dummy
Spec == dummy = 0 /\ [][dummy' = dummy]_dummy
=============================================================================
