---------------------------- MODULE MCSessionGen ----------------------------
(* Poll-grain exploration of Session.tla that prints every transition as a  *)
(* harness command (edge dump).  tools/walks.py turns the edge list into a   *)
(* set of walks from the initial state covering every edge; the harness      *)
(* replays them on the real Session (spec -> implementation direction).      *)
EXTENDS Session, Json
CONSTANTS MaxDrops, Faults, Modes, BadRpc, MaxPush, DropHolding, WithClose
VARIABLES st, cmd
vars == <<st, cmd>>
View == st

NoCmd == [c |-> "none"]
Init == st = InitState /\ cmd = NoCmd

CanPush == Len(st.pushed) < MaxPush
Next ==
  \/ \E t \in Id : /\ FutCanStep(st, t) /\ st' = RunFut(st, t) /\ cmd' = [c |-> "poll", t |-> t]
  \/ \E t \in Id : /\ FutDroppable(st, t) /\ st.drops < MaxDrops /\ (DropHolding \/ st.held[t].id = 0)
                   /\ st' = DropFut(st, t) /\ cmd' = [c |-> "drop", t |-> t]
  \/ /\ CallerCanStep(st) /\ st' = RunCaller(st) /\ cmd' = [c |-> "pollc"]
  \/ \E good \in BOOLEAN : /\ CanStartRpc(st) /\ (good \/ BadRpc)
                           /\ st' = RunCaller(StartRpc(st, good)) /\ cmd' = [c |-> "rpc", good |-> good]
  \/ /\ WithClose /\ CanStartRpc(st) /\ st.lastId >= 1
     /\ st' = RunCaller(StartClose(st)) /\ cmd' = [c |-> "rpc", good |-> TRUE, close |-> TRUE]
  \/ \E i \in Id : /\ CanPush /\ CanReply(st, i) /\ st' = Reply(st, i) /\ cmd' = [c |-> "reply", id |-> i]
  \/ \E i \in Id : /\ Faults /\ CanPush /\ CanDup(st, i) /\ st' = Dup(st, i) /\ cmd' = [c |-> "dup", id |-> i]
  \/ \E i \in 1..(N+1) : /\ Faults /\ CanPush /\ CanStray(st, i) /\ st' = Stray(st, i)
                         /\ cmd' = [c |-> "stray", id |-> i]
  \/ /\ Faults /\ CanPush /\ st' = Garbage(st) /\ cmd' = [c |-> "garbage"]
  \/ \E i \in Id : /\ Faults /\ CanPush /\ CanReply(st, i) /\ st' = BadBody(st, i) /\ cmd' = [c |-> "badbody", id |-> i]
  \/ \E i \in Id : /\ Faults /\ CanPush /\ CanReply(st, i) /\ st' = Glued(st, i) /\ cmd' = [c |-> "glued", id |-> i]
  \/ /\ Faults /\ ~st.closed /\ st' = Close(st) /\ cmd' = [c |-> "close"]
  \/ /\ Faults /\ st.cpc # "idle" /\ st' = DropCaller(st) /\ cmd' = [c |-> "dropc"]
  \/ \E m \in Modes : /\ m # st.sendMode /\ st' = [st EXCEPT !.sendMode = m] /\ cmd' = [c |-> "mode", m |-> m]
Spec == Init /\ [][Next]_vars

(* compact identity of a state for the walker *)
Key(s) == ToString(s)
Edge == PrintT(<<"EDGE", ToJson([from |-> Key(st), cmd |-> cmd', to |-> Key(st'),
                                 quiet |-> (Quiet(st') /\ AllAnswered(st') /\ st'.sendMode = "free")])>>)
InvSafety   == Safety(st)
InvProgress == NoOneLeftWaiting(st)
=============================================================================
