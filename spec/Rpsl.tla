-------------------------------- MODULE Rpsl --------------------------------
(***************************************************************************)
(* RPSL filter-expression semantics over an IRR database (RFC 2622 / 4012) *)
(* - the oracle of C11 and C17.                                            *)
(*                                                                         *)
(* Prefixes are atoms <<family, length, index>> of a small universe:       *)
(*   family 4: the prefixes of length 8..11 under 10.0.0.0/8  (15 atoms)   *)
(*   family 6: length 32..34 under 2001:db8::/32               (7 atoms)   *)
(* index = position among the prefixes of that length (left to right), so  *)
(* containment is arithmetic.  The harness maps atoms to real prefixes.    *)
(*                                                                         *)
(* Database (a record):                                                    *)
(*   asSets   : name -> [sets : member as-sets, items : member ASes]       *)
(*   routes   : AS name -> set of atoms (route and route6 objects)          *)
(*   rtSets   : name -> [sets : member route-sets, items : member atoms]   *)
(*   fltSets  : name -> expression                                         *)
(* Expressions (records, field `op`):                                      *)
(*   asset(name, rng) | as(name, rng) | rset(name, rng) | fset(name)       *)
(*   | lit(atoms, rng) | and(l, r) | or(l, r) | andnot(l, r)               *)
(* rng: <<lo, hi>> range operator ^lo-hi (<<0, 0>> = none)                 *)
(* Stated bounds: NOT only as the right operand of AND; range operators    *)
(* only of the bounded forms ^n / ^n-m with n not below the length of any  *)
(* prefix they are applied to (so results stay inside the universe).       *)
(***************************************************************************)
EXTENDS Naturals, Sequences, FiniteSets, TLC

MinLen(f) == IF f = 4 THEN 8 ELSE 32
MaxLen(f) == IF f = 4 THEN 11 ELSE 34
RECURSIVE Pow2(_)
Pow2(n) == IF n = 0 THEN 1 ELSE 2 * Pow2(n - 1)
Atoms(f) == UNION {{<<f, l, i>> : i \in 0..(Pow2(l - MinLen(f)) - 1)} : l \in MinLen(f)..MaxLen(f)}
AllAtoms == Atoms(4) \cup Atoms(6)
(* q is p or a more specific of p *)
Within(q, p) == q[1] = p[1] /\ q[2] >= p[2] /\ (q[3] \div Pow2(q[2] - p[2])) = p[3]

NoRange == <<0, 0>>
(* range operator applied to one prefix: its more specifics of length lo..hi (inside the universe) *)
ApplyRange(p, rng) ==
  IF rng = NoRange THEN {p}
  ELSE {q \in Atoms(p[1]) : Within(q, p) /\ q[2] >= rng[1] /\ q[2] <= rng[2]}
ApplyRangeSet(S, rng) == UNION {ApplyRange(p, rng) : p \in S}

(* set objects are records [sets : names of member sets of the same kind, items : member ASes (as-set) *)
(* or member prefixes (route-set)]; closure = least fixpoint, cycles allowed                             *)
RECURSIVE Closure(_, _, _)
Closure(tbl, todo, seen) ==
  IF todo = {} THEN seen
  ELSE LET s == CHOOSE x \in todo : TRUE
           new == {m \in (IF s \in DOMAIN tbl THEN tbl[s].sets ELSE {}) : m \in DOMAIN tbl /\ m \notin seen}
       IN Closure(tbl, (todo \ {s}) \cup new, seen \cup new \cup {s})
Items(tbl, name) == UNION {tbl[s].items : s \in Closure(tbl, {name}, {name})}
MemberASes(db, name) == Items(db.asSets, name)
RsMembers(db, name) == Items(db.rtSets, name)
RoutesOf(db, as) == IF as \in DOMAIN db.routes THEN db.routes[as] ELSE {}

(* errs: what the IRR refused to answer for this evaluation:                           *)
(*   errs.asSets  - as-sets whose member query gets an error  -> the evaluation FAILS   *)
(*   errs.ases    - ASes whose route queries get an error      -> that AS contributes nothing *)
(*   errs.rtSets  - route-sets whose query gets an error       -> empty                 *)
(*   errs.fltSets - filter-sets whose query gets an error      -> NOT ANY (empty)       *)
NoErrs == [asSets |-> {}, ases |-> {}, rtSets |-> {}, fltSets |-> {}]
Failed == {<<0, 0, 0>>}    \* distinguished result of an evaluation that must fail (not a set of atoms)

RECURSIVE Eval(_, _, _, _)
(* depth bounds the unfolding of filter-sets that refer to each other *)
Eval(e, db, errs, depth) ==
  CASE e.op = "asset" ->
         IF e.name \notin DOMAIN db.asSets \/ e.name \in errs.asSets THEN Failed
         ELSE ApplyRangeSet(UNION {RoutesOf(db, a) : a \in MemberASes(db, e.name) \ errs.ases}, e.rng)
    [] e.op = "as" -> IF e.name \in errs.ases THEN {} ELSE ApplyRangeSet(RoutesOf(db, e.name), e.rng)
    [] e.op = "rset" ->
         IF e.name \notin DOMAIN db.rtSets \/ e.name \in errs.rtSets THEN {}
         ELSE ApplyRangeSet(RsMembers(db, e.name), e.rng)
    [] e.op = "fset" ->
         IF e.name \notin DOMAIN db.fltSets \/ e.name \in errs.fltSets \/ depth = 0 THEN {}
         ELSE Eval(db.fltSets[e.name], db, errs, depth - 1)
    [] e.op = "lit" -> ApplyRangeSet(e.atoms, e.rng)
    [] e.op \in {"and", "or", "andnot"} ->
         LET l == Eval(e.l, db, errs, depth)  r == Eval(e.r, db, errs, depth) IN
         IF l = Failed \/ r = Failed THEN Failed
         ELSE IF e.op = "and" THEN l \cap r ELSE IF e.op = "or" THEN l \cup r ELSE l \ r
=============================================================================
