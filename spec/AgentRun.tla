------------------------------ MODULE AgentRun ------------------------------
(***************************************************************************)
(* One run of the agent (junos-agent/src/task.rs Updater::run,             *)
(* netconf/mod.rs Client, policies/{compare,load,fetch}.rs) as an           *)
(* implementation-shaped model over the reference router of Junos.tla.     *)
(*                                                                         *)
(* Data part: Plan = compare() + Differences::write_xml(): from what was   *)
(*   evaluated and what the reader of the installed policies returned to   *)
(*   the sequence of load-configuration updates.  Route-filters are the    *)
(*   atoms themselves (one filter string per atom).                        *)
(* Protocol part: the '?' chain open -> get-config x2 -> load x N          *)
(*   (pipelined: all sent, then awaited in order) -> commit -> close-db -> *)
(*   close-session with a fault possible at every reply.                   *)
(* Contract: C01 (Converged, NoOrphans, ReadBack, Idempotent), C02         *)
(* (NoFailOpen for every single update), C03 (failed evaluations touch     *)
(* nothing), C04 (CommitOnlyAfter, NoCommitAfterFailure, SuccessOnly).     *)
(***************************************************************************)
EXTENDS Junos, Integers

CONSTANTS PNames, A4, A6,
          FixEmptyTerm,     \* TRUE: no name-only term for an empty family (fix 99b76e8); FALSE: as found
          RejectBareTerm,   \* TRUE: the reader refuses a term that has `from family` and `then accept` but no route-filter
                            \*   (fix ea5fcc6); FALSE: as found - read as "no ranges installed", so an update for an empty
                            \*   family leaves the accept-all term in place
          SkipNoReject      \* FALSE: an installed policy without trailing reject is read like any other (fix: the
                            \*   update re-asserts the reject and removes stale ranges); TRUE: as found - skipped,
                            \*   i.e. treated as not installed, and then merged into

Fam == {"inet", "inet6"}
AtomsOf(f) == IF f = "inet" THEN A4 ELSE A6
FilterOf(a) == a                                    \* one route-filter per atom
Den == [a \in A4 \cup A6 |-> [atoms |-> {a}, extra |-> FALSE]]

(* what evaluating a managed policy yields: "none" (not managed), "fail", or target sets *)
Targets == [inet : SUBSET A4, inet6 : SUBSET A6]
Status == {[kind |-> "unmarked"], [kind |-> "fail"]} \cup {[kind |-> "ok", t |-> t] : t \in Targets}

(* ---- the reader of installed policies (fetch.rs, Maybe<Installed>) ---- *)
FamilySet(p, f) ==
  LET ks == {k \in 1..Len(p.terms) : p.terms[k].family = f} IN
  IF ks = {} THEN {} ELSE SeqSet(p.terms[CHOOSE k \in ks : TRUE].filters)
InstalledView(eph) ==     \* name -> [inet, inet6]
  [n \in {eph[k].name : k \in {k \in 1..Len(eph) : eph[k].reject \/ ~SkipNoReject}} |->
     [inet |-> FamilySet(Get(eph, n), "inet"), inet6 |-> FamilySet(Get(eph, n), "inet6")]]
ReaderAccepts(eph) == \A k \in 1..Len(eph) :
  /\ Readable(eph[k])
  /\ (RejectBareTerm => \A j \in 1..Len(eph[k].terms) : eph[k].terms[j].filters # <<>>)

(* ---- compare() + Differences::write_xml() ---- *)
RECURSIVE SetSeq(_)
SetSeq(S) == IF S = {} THEN <<>> ELSE LET x == CHOOSE y \in S : TRUE IN <<x>> \o SetSeq(S \ {x})
TermFor(f, hasOld, old, new) ==
  IF new = {} /\ (~hasOld \/ old = {}) /\ FixEmptyTerm THEN <<>>
  ELSE <<[name |-> f, delete |-> (hasOld /\ old # {} /\ new = {}),
          family |-> IF new # {} THEN f ELSE "none",
          adds |-> IF new = {} THEN <<>> ELSE SetSeq(IF hasOld THEN new \ old ELSE new),
          dels |-> IF new = {} \/ ~hasOld THEN <<>> ELSE SetSeq(old \ new),
          accept |-> new # {}]>>
UpdateFor(n, t, view) ==
  LET has == n \in DOMAIN view IN
  [policy |-> n, delete |-> FALSE, reject |-> TRUE,
   terms |-> TermFor("inet", has, IF has THEN view[n].inet ELSE {}, t.inet)
             \o TermFor("inet6", has, IF has THEN view[n].inet6 ELSE {}, t.inet6)]
DeleteFor(n) == [policy |-> n, delete |-> TRUE, reject |-> FALSE, terms |-> <<>>]
(* the updates of one run, one per policy, in some order (HashMap iteration) *)
PlanSet(st, view) ==
  {UpdateFor(n, st[n].t, view) : n \in {n \in PNames : st[n].kind = "ok"}}
  \cup {DeleteFor(n) : n \in {n \in DOMAIN view : n \notin PNames \/ st[n].kind = "unmarked"}}

RECURSIVE ApplyAll(_, _)
ApplyAll(eph, us) == IF us = {} THEN eph
                     ELSE LET u == CHOOSE x \in us : TRUE IN ApplyAll(LoadPolicy(eph, u), us \ {u})

(* ---- C01 / C02 / C03 on the data ---- *)
Converged(eph, st) ==
  \A n \in PNames : st[n].kind = "ok" =>
     /\ n \in Names(eph)
     /\ AcceptAtoms(Get(eph, n), "inet", Den) = st[n].t.inet
     /\ AcceptAtoms(Get(eph, n), "inet6", Den) = st[n].t.inet6
     /\ ~FailOpen(Get(eph, n))
NoOrphans(eph, st) == \A n \in Names(eph) : st[n].kind # "unmarked"
UpdateSafe(eph, u, st) ==      \* C02 for one update applied to what was fetched
  u.delete \/ LET P == Get(LoadPolicy(eph, u), u.policy) IN
    /\ ~FailOpen(P)
    /\ AcceptAtoms(P, "inet", Den) \subseteq st[u.policy].t.inet
    /\ AcceptAtoms(P, "inet6", Den) \subseteq st[u.policy].t.inet6
Untouched(eph0, eph1, st) ==   \* C03
  \A n \in PNames : st[n].kind = "fail" =>
     (n \in Names(eph0)) = (n \in Names(eph1)) /\ (n \in Names(eph0) => Get(eph0, n) = Get(eph1, n))
=============================================================================
