-------------------------------- MODULE Irrd --------------------------------
(***************************************************************************)
(* The IRRd query protocol as bgpfu uses it (lib/src/query.rs on top of    *)
(* irrc's Connection / Pipeline): one TCP connection in multiple-command   *)
(* mode, the client writes query lines, the server answers every query in  *)
(* the order received:                                                     *)
(*     A<len> <data> C   |   C   (no data)   |   D   (key not found)       *)
(*     | E  (not unique) |   F <message>                                   *)
(* The client side is implementation-shaped: one action per step of a      *)
(* resolver of query.rs,                                                   *)
(*   init   : connect -> push !n<id>, pipeline dropped at once             *)
(*   fset   : push !mfilter-set,<n>; take the first object that carries an *)
(*            mp-filter; the rest of the pipeline is dropped unread        *)
(*   asset  : push !i<n>,1; an error status fails the resolver; while the  *)
(*            member list is being read, !g<as> and !6<as> are pushed for  *)
(*            every member; then every response is read, errors are sunk   *)
(*   rset   : push !i<n>,1, read everything, errors sunk                   *)
(*   as     : push !g<as>, !6<as>, read everything, errors sunk            *)
(* and irrc's discipline: push = enqueue + flush (the line is on the wire  *)
(* before push returns), pop = take the oldest enqueued query and read its *)
(* status line, dropping a pipeline reads every outstanding response to    *)
(* its end (Pipeline::drop -> clear).  DrainOnDrop = FALSE is the          *)
(* deviation "drop forgets the queue" (negative control: TLC must find     *)
(* the misattribution).                                                    *)
(*                                                                         *)
(* Source selection: the server carries more sources than it uses by       *)
(* default; `!s<list>` / `!s-*` change the selection OF THE CONNECTION,    *)
(* and every later answer comes from the selected sources (Ans for the     *)
(* default selection, AnsAll for all sources).  bgpfu never sends `!s`.    *)
(* WidenOnNotUnique = TRUE is the deviation "a filter-set answered E is    *)
(* looked up again source by source and the selection is then reset with   *)
(* `!s-*`" (negative control: TLC must find a later call whose value is    *)
(* not the one the default selection defines).                             *)
(*                                                                         *)
(* Contract (C17, design level):                                           *)
(*   Aligned     every element the client consumes as part of the answer   *)
(*               to query q was sent by the server in answer to q          *)
(*   CleanStart  a resolver starts on a quiet connection: nothing queued,  *)
(*               nothing unanswered, nothing unread                        *)
(*   HistoryFree the value a resolver call returns depends on the call and *)
(*               the server's answers only, not on the calls before it     *)
(*   Finishes    every call of the history returns (no read that waits for *)
(*               an answer to a query that was never sent)                 *)
(***************************************************************************)
EXTENDS IrrdProto

CONSTANTS Calls,        \* the resolver calls that may occur: records [k |-> kind, n |-> name]
          MaxCalls,     \* length of the history
          DrainOnDrop,
          Ans,          \* the server's database as seen with its default source selection: query -> [st, items]
          AnsAll,       \* ... and with every source it carries selected
          WidenOnNotUnique

Elements(q) == ElementsA(Ans, q)
Meaning(call) == MeaningA(Ans, call)
QueriesOf(call) == QueriesOfA(Ans, call)

VARIABLES
  work,      \* the history: sequence of calls, chosen initially
  w,         \* index of the call in progress
  pc,        \* "start" | "initial" (asset: reading the member list) | "read" | "drain" | "done"
  cq,        \* irrc Queue: queries pushed and not yet popped
  cur,       \* the response being read: <<>> or <<q>> (the query the client believes it belongs to)
  toSrv,     \* query lines on the wire
  toCli,     \* response elements on the wire
  got,       \* ghost: what was consumed, [believed, actual]
  acc,       \* values collected by the call in progress
  found,     \* fset: an object with mp-filter was found
  results,   \* per call: [ok, val]
  sel        \* server side: the source selection of this connection, "default" | "all"
vars == <<work, w, pc, cq, cur, toSrv, toCli, got, acc, found, results, sel>>

RECURSIVE SeqsUpTo(_, _)
SeqsUpTo(S, n) == IF n = 0 THEN {<<>>} ELSE LET r == SeqsUpTo(S, n - 1) IN r \cup {Append(s, c) : s \in {x \in r : Len(x) = n - 1}, c \in S}

Init == /\ work \in {<<[k |-> "init", n |-> "id"]>> \o s : s \in SeqsUpTo(Calls, MaxCalls) \ {<<>>}}
        /\ w = 1 /\ pc = "start" /\ cq = <<>> /\ cur = <<>> /\ toSrv = <<>> /\ toCli = <<>>
        /\ got = <<>> /\ acc = {} /\ found = FALSE /\ results = <<>> /\ sel = "default"

Call == work[w]
Active == w <= Len(work)

(* push = enqueue + flush *)
PushAll(qs) == /\ cq' = cq \o qs /\ toSrv' = toSrv \o qs

(* ---- server ---------------------------------------------------------------------------- *)
Serve == /\ toSrv # <<>>
         /\ LET q == Head(toSrv) IN
            /\ toCli' = toCli \o ElementsA(IF sel = "all" THEN AnsAll ELSE Ans, q)
            /\ sel' = IF q.c = "s" THEN (IF q.n = "all" THEN "all" ELSE "default") ELSE sel
         /\ toSrv' = Tail(toSrv)
         /\ UNCHANGED <<work, w, pc, cq, cur, got, acc, found, results>>

(* ---- client: a resolver starts -------------------------------------------------------- *)
Start ==
  /\ Active /\ pc = "start"
  /\ acc' = {} /\ found' = FALSE
  /\ CASE Call.k = "init" -> PushAll(<<Q("n", Call.n)>>) /\ pc' = "drain"      \* pipeline dropped at the end of the block
       [] Call.k = "fset" -> PushAll(<<Q("m", Call.n)>>) /\ pc' = "read"
       [] Call.k = "asset" -> PushAll(<<Q("i", Call.n)>>) /\ pc' = "initial"
       [] Call.k = "rset" -> PushAll(<<Q("i", Call.n)>>) /\ pc' = "read"
       [] Call.k = "as" -> PushAll(<<Q("g", Call.n), Q("6", Call.n)>>) /\ pc' = "read"
  /\ UNCHANGED <<work, w, cur, toCli, got, results, sel>>

Finish(ok, val) ==
  /\ results' = Append(results, [ok |-> ok, val |-> val])
  /\ w' = w + 1 /\ pc' = "start"

Consume == /\ toCli # <<>> /\ toCli' = Tail(toCli)
Note(believed) == got' = Append(got, [believed |-> believed, actual |-> Head(toCli).of, el |-> Head(toCli).el])

(* pop: take the oldest enqueued query, read its status line (blocks until one is there) *)
NotUniqueForFset ==
  /\ Active /\ pc = "read" /\ Call.k = "fset" /\ cur = <<>> /\ cq # <<>> /\ toCli # <<>>
  /\ Head(cq).c = "m" /\ Head(toCli).el = "st" /\ Head(toCli).v = "E" /\ acc = {}
(* deviation: "not unique" - ask again with the sources selected one at a time (here: the default ones), then `!s-*` *)
WidenAfterNotUnique ==
  /\ WidenOnNotUnique /\ NotUniqueForFset
  /\ Consume /\ Note(Head(cq))
  /\ LET again == <<Q("s", "one"), Q("m", Call.n), Q("s", "all")>> IN
     /\ cq' = Tail(cq) \o again /\ toSrv' = toSrv \o again
  /\ acc' = {"asked again"}
  /\ UNCHANGED <<work, w, pc, cur, found, results, sel>>

PopStatus ==
  /\ Active /\ pc \in {"initial", "read", "drain"} /\ cur = <<>> /\ cq # <<>>
  /\ ~(WidenOnNotUnique /\ NotUniqueForFset)
  /\ Consume /\ Note(Head(cq))
  /\ cq' = Tail(cq)
  /\ LET e == Head(toCli) IN
     IF e.el = "st" /\ e.v = "A" THEN
          /\ cur' = <<Head(cq)>> /\ UNCHANGED <<pc, w, results, acc, found>>
     ELSE IF pc = "initial" THEN
          (* asset: error status (or an empty member list) on the initial query *)
          IF e.el = "st" /\ IsErr(e.v)
          THEN /\ cur' = <<>> /\ Finish(FALSE, {}) /\ UNCHANGED <<acc, found>>      \* `?` - nothing else is outstanding
          ELSE /\ cur' = <<>> /\ pc' = "read" /\ UNCHANGED <<w, results, acc, found>>
     ELSE /\ cur' = <<>> /\ UNCHANGED <<pc, w, results, acc, found>>                 \* error / empty: sunk
  /\ UNCHANGED <<work, toSrv, sel>>

(* read one element of the response in progress *)
ReadElement ==
  /\ Active /\ cur # <<>>
  /\ Consume /\ Note(cur[1])
  /\ LET e == Head(toCli) IN
     IF e.el = "item" THEN
        IF pc = "initial" THEN      \* a member AS: its two route queries are pushed right away
             /\ cq' = cq \o <<Q("g", e.v), Q("6", e.v)>> /\ toSrv' = toSrv \o <<Q("g", e.v), Q("6", e.v)>>
             /\ UNCHANGED <<cur, pc, acc, found>>
        ELSE IF pc = "read" /\ Call.k = "fset" THEN
             (* find_map: stop at the first usable object; the closure returns and the pipeline is dropped *)
             IF e.v = "good" THEN /\ found' = TRUE /\ pc' = "drain" /\ UNCHANGED <<cur, cq, toSrv, acc>>
             ELSE UNCHANGED <<cur, pc, cq, toSrv, acc, found>>
        ELSE IF pc = "read" THEN /\ acc' = acc \cup {e.v} /\ UNCHANGED <<cur, pc, cq, toSrv, found>>
        ELSE UNCHANGED <<cur, pc, cq, toSrv, acc, found>>          \* draining: discarded
     ELSE /\ cur' = <<>>                                                 \* end marker (or anything else): response over
          /\ pc' = IF pc = "initial" THEN "read" ELSE pc
          /\ UNCHANGED <<cq, toSrv, acc, found>>
  /\ UNCHANGED <<work, w, results, sel>>

(* the pipeline is exhausted: the resolver returns *)
Return ==
  /\ Active /\ pc \in {"read", "drain"} /\ cur = <<>> /\ cq = <<>>
  /\ CASE Call.k = "init" -> Finish(TRUE, {})
       [] Call.k = "fset" -> Finish(TRUE, IF found THEN {"expr"} ELSE {"NOT ANY"})
       [] OTHER -> Finish(TRUE, acc)
  /\ UNCHANGED <<work, cq, cur, toSrv, toCli, got, acc, found, sel>>

(* deviation: a dropped pipeline forgets what is outstanding instead of reading it *)
ForgetOnDrop ==
  /\ ~DrainOnDrop /\ Active /\ pc = "drain" /\ (cq # <<>> \/ cur # <<>>)
  /\ cq' = <<>> /\ cur' = <<>>
  /\ UNCHANGED <<work, w, pc, toSrv, toCli, got, acc, found, results, sel>>

Next == Serve \/ Start \/ PopStatus \/ ReadElement \/ Return \/ ForgetOnDrop \/ WidenAfterNotUnique
Spec == Init /\ [][Next]_vars /\ WF_vars(Next)

(* ---- contract ---------------------------------------------------------------------------- *)
Aligned == \A k \in 1..Len(got) : got[k].believed = got[k].actual
CleanStart == Active /\ pc = "start" => cq = <<>> /\ cur = <<>> /\ toSrv = <<>> /\ toCli = <<>>
HistoryFree == \A k \in 1..Len(results) : results[k] = Meaning(work[k])
(* a resolver leaves the connection's source selection as it found it *)
SelectionKept == (Active /\ pc = "start") => sel = "default"
Finishes == <>(~Active)
=============================================================================
