-------------------------------- MODULE Logs --------------------------------
(* C20.  The specification's share here is thin and stated as such: the       *)
(* matrix of connection attempts (transport x stage reached x class of        *)
(* secret) and the invariant "no captured log line of this repository's       *)
(* crates contains the secret".  Whether a line contains the secret (clear,   *)
(* escaped, hex, base64, byte list) is decided by the harness, because TLC     *)
(* has no substring search.                                                    *)
EXTENDS Naturals, Sequences, TLC, Json, IOUtils, TLCExt
Cases ==
  {[transport |-> "ssh", stage |-> s, secret |-> c] : s \in {"refused", "auth-fails", "hello-fails", "established"},
                                                      c \in {"plain", "quotes", "nonascii", "long",
                                                            (* values other conventions give a meaning to *)
                                                            "at-prefix", "dash-prefix", "format", "shell", "path-like", "url-like", "json-like", "multiline"}}
  (* servers that offer keyboard-interactive authentication only; the prompts and their "echo" flags are the server's *)
  \cup {[transport |-> "ssh", stage |-> s, secret |-> c] :
          s \in {"kbd-hidden", "kbd-login-then-password", "kbd-echoed-passcode", "kbd-echoed-odd-prompts"}, c \in {"plain", "quotes", "nonascii"}}
  \cup {[transport |-> "tls", stage |-> s, secret |-> "key"] : s \in {"refused", "handshake-fails", "closed-after-handshake", "established"}}
  (* client keys of the other kinds and encodings (SEC1, PKCS#1, PKCS#8; curves the TLS library takes and curves it refuses) *)
  \cup {[transport |-> t, stage |-> s, secret |-> c] : t \in {"tls", "agent"}, s \in {"refused", "handshake-fails"},
          c \in {"ec-p521-sec1", "ec-p256-sec1", "ec-secp256k1-sec1", "ec-p384-pkcs8", "ed25519-pkcs8", "rsa-pkcs1"}}
  \cup {[transport |-> "agent", stage |-> s, secret |-> c] : s \in {"refused", "handshake-fails", "closed-after-handshake"},
                                                        c \in {"key", "combined-pem"}}
  (* one agent process in daemon mode: a job that succeeds, then jobs that fail because the router is gone *)
  \cup {[transport |-> "agent-daemon", stage |-> "established-then-unreachable", secret |-> "key"]}
  (* key files as users really have them; most of these make the attempt fail before it starts *)
  \cup {[transport |-> "agent", stage |-> "refused", secret |-> c] :
          c \in {"one-line", "no-end-marker", "no-begin-marker", "crlf", "der", "latin1-comment", "bom", "truncated"}}
GenMode == IOEnv.MODE = "gen"
ASSUME GenMode => PrintT(<<"GEN", ToJson([cases |-> Cases])>>)

Rec == IF GenMode THEN <<>> ELSE ndJsonDeserialize(IOEnv.TRACE)
VARIABLES l, viol, stats
tvars == <<l, viol, stats>>
V(e) == [prop |-> "C20", rule |-> "SecretInLogOutput",
         disc |-> "transport=" \o e.c.transport \o " stage=" \o e.c.stage \o " secret=" \o e.c.secret,
         case |-> e.case, n |-> 1, info |-> e.leaks[1].form \o ": " \o e.leaks[1].line]
TInit == l = 1 /\ viol = {} /\ stats = [lines |-> 0, nontrivial |-> 0]
TNext == /\ l <= Len(Rec) /\ l' = l + 1
         /\ viol' = IF Rec[l].leak THEN viol \cup {V(Rec[l])} ELSE viol
         /\ stats' = [stats EXCEPT !.lines = @ + 1, !.nontrivial = IF Rec[l].own_lines > 0 THEN @ + 1 ELSE @]
TSpec == TInit /\ [][TNext]_tvars
Done == l > Len(Rec)
Report == (Done /\ ~GenMode) => PrintT(<<"TRACE-RESULT", ToJson([lines |-> Len(Rec), stats |-> stats, viol |-> viol])>>)
Accepted == TLCGet("stats").diameter >= Len(Rec)
=============================================================================
