----------------------------- MODULE AgentTrace -----------------------------
(***************************************************************************)
(* Judge of the runs of the real agent binary against the fake Junos and   *)
(* the fake IRRd (harness/src/bin/agentrun.rs).  The trace is the fake     *)
(* router's request log, the fake IRRd's query log and the exit status;    *)
(* the ephemeral configuration is recomputed here with Junos!Load (the     *)
(* fake router's own Rust copy is cross-checked against it), and the       *)
(* contracts of C01, C02, C03, C04, C15, C16 are evaluated on it.          *)
(*                                                                         *)
(* Per run the generator states what it constructed (`expect`):            *)
(*   policies : name -> [sel, marked, eval, v4, v6, expr]                  *)
(*     sel    the statement is active, annotated "bgpfu-fltr: <parseable>" *)
(*            and consists of a default reject (Agent!Managed of its shape)*)
(*     marked active and carrying a bgpfu-fltr annotation (parseable or not)*)
(*     eval   ok | fail | unsup | none  - what evaluating it must yield    *)
(*     v4, v6 the atoms (universe prefixes) the IRR data denote            *)
(***************************************************************************)
EXTENDS Junos, Json, IOUtils, TLCExt, Integers

Rec == ndJsonDeserialize(IOEnv.TRACE)
VARIABLES l, viol, stats, s
tvars == <<l, viol, stats, s>>
Has(e, f) == f \in DOMAIN e

RECURSIVE Merge(_, _)
Merge(vs, new) ==
  IF new = {} THEN vs
  ELSE LET v == CHOOSE x \in new : TRUE
           same == {w \in vs : w.rule = v.rule /\ w.disc = v.disc /\ w.prop = v.prop}
       IN  IF same = {} THEN Merge(vs \cup {v}, new \ {v})
           ELSE LET w == CHOOSE x \in same : TRUE
                IN  Merge((vs \ {w}) \cup {[w EXCEPT !.n = @ + 1]}, new \ {v})
V(prop, rule, disc, e) == [prop |-> prop, rule |-> rule, disc |-> disc, case |-> e.case, n |-> 1, info |-> ""]

(* merge two denotation maps (records keyed by filter string) *)
DenMerge(a, b) == [k \in (DOMAIN a) \cup (DOMAIN b) |-> IF k \in DOMAIN b THEN b[k] ELSE a[k]]
NoDen == [x \in {} |-> 0]
ToSet(q) == {q[k] : k \in 1..Len(q)}
(* denotations arrive as JSON lists; Junos!AcceptAtoms wants sets *)
DenOf(e) == [k \in DOMAIN e.den |-> [atoms |-> ToSet(e.den[k].atoms), extra |-> e.den[k].extra]]

S0 == [ eph |-> <<>>,            \* ephemeral configuration as committed (Junos!Load applied by this spec)
        staged |-> <<>>,         \* the open instance of the current session
        start |-> <<>>,          \* configuration at the start of the current run
        prevEnd |-> <<>>,        \* configuration at the end of the previous run
        den |-> NoDen,
        expect |-> NoDen, repeat |-> FALSE, instance |-> "",
        opened |-> FALSE, openAcked |-> FALSE, failed |-> FALSE, loadsAcked |-> TRUE,
        commitSeen |-> FALSE, commitAcked |-> FALSE, closeDbAcked |-> FALSE, closeSessAcked |-> FALSE,
        faulted |-> FALSE, updated |-> {}, deleted |-> {}, nloads |-> 0, irrmode |-> "ok", prevOk |-> FALSE,
        twin |-> FALSE, style |-> "", twinOk |-> FALSE, twinEnd |-> <<>> ]   \* C13: the same run, replies serialised differently

(* the route-filters (as written) of the accepting terms of a policy that match family f *)
AcceptFilters(P, f) == UNION {SeqSet(P.terms[k].filters) : k \in {k \in 1..Len(P.terms) : P.terms[k].accept /\ TermMatchesFamily(P.terms[k], f)}}
(* boundary values (the default route, 0.0.0.0/0 up to /24, host routes) lie outside the denotation universes: for *)
(* such policies the scenario says which route-filters are expected, literally                                     *)
Exact(x) == "filters4" \in DOMAIN x
Within4(P, x, d) == IF Exact(x) THEN AcceptFilters(P, "inet") \subseteq ToSet(x.filters4) ELSE AcceptAtoms(P, "inet", d) \subseteq ToSet(x.v4)
Within6(P, x, d) == IF Exact(x) THEN AcceptFilters(P, "inet6") \subseteq ToSet(x.filters6) ELSE AcceptAtoms(P, "inet6", d) \subseteq ToSet(x.v6)
Equal4(P, x, d) == IF Exact(x) THEN AcceptFilters(P, "inet") = ToSet(x.filters4) ELSE AcceptAtoms(P, "inet", d) = ToSet(x.v4)
Equal6(P, x, d) == IF Exact(x) THEN AcceptFilters(P, "inet6") = ToSet(x.filters6) ELSE AcceptAtoms(P, "inet6", d) = ToSet(x.v6)
Beyond(P, x, d) == ~Exact(x) /\ AcceptsOutsideUniverse(P, d)
Pol(exp, n) == exp.policies[n]
Known(exp, n) == Has(exp, "policies") /\ n \in DOMAIN exp.policies
Acked(e) == e.fault \in {"none", "close-after", "late-ok"}      \* the reply that was sent is a positive one (late-ok: after the next request's)
Mut(e) == Has(e, "mutated") /\ e.mutated            \* the router executed the request, its reply was damaged (C14)
Executed(e) == Acked(e) \/ Mut(e)
Effective(e) == ~Has(e, "effective") \/ e.effective    \* a commit that is neither <check/> nor <confirmed/>

---------------------------------------------------------------------------
(* events of one session *)
PropOf(st) == IF "prop" \in DOMAIN st.expect THEN st.expect.prop ELSE IOEnv.PROP
ReqViol(st, e, staged1) ==
  LET k == e.kind IN
  (* whatever names and expressions the configuration holds, a request of the agent is well-formed XML *)
  (IF k = "unparseable" THEN {V(PropOf(st), "RequestOfTheAgentIsNotWellFormedXml", "", e)} ELSE {})
  \cup
  (IF k = "open" /\ e.instance # st.instance THEN {V("C02", "WrongInstanceOpened", e.instance, e)} ELSE {})
  \cup
  (IF k = "commit" /\ ~st.openAcked THEN {V("C04", "CommitWithoutOpenDatabase", "", e)} ELSE {})
  \cup
  (IF k = "commit" /\ st.failed THEN {V("C04", "CommitAfterFailedStep", "", e)} ELSE {})
  \cup
  (IF k = "commit" /\ ~st.loadsAcked THEN {V("C04", "CommitAlthoughALoadWasNotAcknowledged", "", e)} ELSE {})
  \cup
  (IF k = "load" /\ ~e.db_open THEN {V("C04", "LoadWithoutOpenDatabase", "", e)} ELSE {})
  \cup
  (* the commit was requested before every load of the run had been acknowledged - this one had not even been sent *)
  (IF k = "load" /\ st.commitSeen THEN {V("C04", "CommitBeforeEveryLoadOfTheRun", "", e)} ELSE {})
  \cup
  (IF k = "load" THEN
     (IF e.update.foreign # <<>> THEN {V("C02", "WritesOutsidePolicyStatements", e.update.foreign[1], e)} ELSE {})
     \cup (IF Has(e, "state") /\ e.state # staged1
           THEN {V("TOOL", "FakeRouterDisagreesWithJunosTla", "", e)} ELSE {})
     \cup UNION {
       LET p == e.update.policies[i]  n == p.policy IN
       IF p.delete
       THEN (IF Known(st.expect, n) /\ Pol(st.expect, n).marked
             THEN {V("C03", "DeleteOfStillMarkedPolicy", "eval=" \o Pol(st.expect, n).eval, e)} ELSE {})
            \cup (IF n \notin Names(st.start) THEN {V("C03", "DeleteOfPolicyThatIsNotInstalled", "", e)} ELSE {})
       ELSE
         (IF ~Known(st.expect, n) \/ ~Pol(st.expect, n).sel
          THEN {V("C16", "UpdateOfUnmanagedStatement", IF Known(st.expect, n) THEN Pol(st.expect, n).why ELSE "unknown name", e)}
          ELSE
            (IF Pol(st.expect, n).eval = "skip" THEN {}
             ELSE IF Pol(st.expect, n).eval \notin {"ok", "either"}
             THEN {V("C03", "UpdateOfPolicyWhoseDataCouldNotBeObtained", "eval=" \o Pol(st.expect, n).eval, e)}
             ELSE
               LET P == Get(LoadAct(st.staged, e.update, e.action), n)      \* the update on its own, acknowledged or not
                   d == DenMerge(st.den, DenOf(e))
                   x == Pol(st.expect, n) IN
               (IF FailOpen(P) THEN {V("C02", "FailOpenPolicy",
                        IF ~P.reject THEN "no trailing reject" ELSE "accepting term without family or route-filter", e)} ELSE {})
               \cup (IF ~Within4(P, x, d)
                     THEN {V("C02", "AcceptsOutsideEvaluatedSet", "inet", e)} ELSE {})
               \cup (IF ~Within6(P, x, d)
                     THEN {V("C02", "AcceptsOutsideEvaluatedSet", "inet6", e)} ELSE {})
               \cup (IF Beyond(P, x, d) THEN {V("C02", "AcceptsRangesBeyondTheEvaluatedOnes", "", e)} ELSE {})
               \cup (IF x.expr # "" /\ p.expr # x.expr
                     THEN {V("C16", "ExpressionUsedDiffersFromTheAnnotation", x.why, e)} ELSE {})))
       : i \in 1..Len(e.update.policies)}
   ELSE {})

ReqStep(st, e) ==
  LET k == e.kind
      (* (the router changes a database only while the session has one open) *)
      dbOpen == ~Has(e, "db_open") \/ e.db_open
      staged1 == IF k = "load" /\ Executed(e) /\ dbOpen THEN LoadAct(st.staged, e.update, e.action)
                 ELSE IF k = "open" /\ Executed(e) THEN st.eph ELSE st.staged
      names == IF k = "load" THEN {e.update.policies[i].policy : i \in {i \in 1..Len(e.update.policies) : ~e.update.policies[i].delete}} ELSE {}
      dels  == IF k = "load" THEN {e.update.policies[i].policy : i \in {i \in 1..Len(e.update.policies) : e.update.policies[i].delete}} ELSE {}
  IN [st EXCEPT
        !.staged = staged1,
        !.den = IF Has(e, "den") THEN DenMerge(@, DenOf(e)) ELSE @,
        !.opened = @ \/ k = "open",
        !.openAcked = @ \/ (k = "open" /\ Acked(e)),
        !.loadsAcked = IF k = "load" /\ ~Acked(e) THEN FALSE ELSE @,
        !.failed = @ \/ (e.fault \notin {"none", "close-after", "delayed-error", "late-ok"}),
        \* closing the connection after the <ok/> to close-session is what every server does
        !.faulted = @ \/ (e.fault \notin {"none", "late-ok"} /\ ~(k = "close-session" /\ e.fault = "close-after")),
        !.commitSeen = @ \/ k = "commit",
        !.commitAcked = @ \/ (k = "commit" /\ Acked(e) /\ Effective(e)),
        !.eph = IF k = "commit" /\ (e.fault \in {"none", "late-ok"} \/ Mut(e)) /\ Effective(e) /\ dbOpen THEN staged1 ELSE @,
        !.closeDbAcked = @ \/ (k = "close-db" /\ Acked(e) /\ e.fault \in {"none", "late-ok"}),
        !.closeSessAcked = @ \/ (k = "close-session" /\ Acked(e)),
        !.updated = @ \cup names, !.deleted = @ \cup dels,
        !.nloads = IF k = "load" THEN @ + 1 ELSE @]

---------------------------------------------------------------------------
(* end of a run: exit status against what happened *)
SelSet(exp) == IF Has(exp, "policies") THEN {n \in DOMAIN exp.policies : exp.policies[n].sel} ELSE {}

ExitViol(st, e) ==
  LET ok == e.code = 0 IN
  (IF e.timed_out THEN {V(IF st.expect.prop = "C14" THEN "C14" ELSE "C07", "AgentHung", "one-shot run did not finish within 15 s", e)} ELSE {})
  \cup (IF st.expect.prop = "C14" /\ Has(e, "panic_at") /\ e.panic_at # ""
        THEN {V("C14", "AgentPanicked", st.expect.garble, e)} ELSE {})
  \cup (IF ok /\ ~st.commitAcked THEN {V("C04", "SuccessWithoutAcknowledgedCommit", "", e)} ELSE {})
  \cup (IF ok /\ ~(st.closeDbAcked /\ st.closeSessAcked) THEN {V("C04", "SuccessWithoutAcknowledgedClose", "", e)} ELSE {})
  \cup (IF ok /\ st.faulted THEN {V("C04", "FailedStepButRunReportedSuccess", "", e)} ELSE {})
  (* two statements that qualify share one name: there is no telling which expression the name stands for - the run  *)
  (* must not go on as if there were (the agent refuses such a configuration)                                        *)
  \cup (IF ok /\ Has(st.expect, "ambiguous") /\ st.expect.ambiguous
        THEN {V("C16", "RunSucceededAlthoughTwoManagedStatementsShareAName", "", e)} ELSE {})
  \cup (IF ~ok /\ ~st.faulted /\ st.irrmode = "ok" /\ ~e.timed_out /\ ~(Has(st.expect, "foreign") /\ st.expect.foreign)
           /\ ~(Has(st.expect, "ambiguous") /\ st.expect.ambiguous)
        THEN {V(st.expect.prop, "RunFailedWithoutAnyFault",
                IF e.panicked THEN "a task panicked" ELSE IF st.repeat THEN "repeat run (read-back of the installed state)"
                ELSE IF st.style # "" THEN "replies re-serialised: " \o st.style ELSE "exit " \o ToString(e.code), e)}
        ELSE {})

EndViol(st, e) ==
  (* C01 / C15 / C16 / C03: state after a run that reported success (st.prevOk set by exit) *)
  IF ~st.prevOk THEN {}
  ELSE
  LET exp == st.expect
      names == Names(st.eph)
      d == DenMerge(st.den, DenOf(e)) IN
  (IF e.eph # st.eph THEN {V("TOOL", "FakeRouterStateDiffersFromJunosTla", "", e)} ELSE {})
  \cup UNION {
     LET x == Pol(exp, n) IN
     IF x.sel /\ x.eval = "ok"
     THEN (IF n \notin names THEN {V(IF exp.prop \in {"C15", "C11", "C17"} THEN exp.prop ELSE "C01", "ManagedPolicyMissingAfterSuccessfulRun", "", e)}
           ELSE LET P == Get(st.eph, n) IN
             (IF ~Equal4(P, x, d) \/ ~Equal6(P, x, d) \/ Beyond(P, x, d) \/ FailOpen(P)
              THEN {V(IF exp.prop \in {"C15", "C11", "C17"} THEN exp.prop ELSE "C01", "InstalledFilterDiffersFromEvaluatedSet",
                      IF ~Equal4(P, x, d) THEN "inet" ELSE "inet6/other", e)} ELSE {})
             \cup (IF ~Readable(P) THEN {V("C01", "InstalledStateNotReadableByTheAgent", "", e)} ELSE {}))
     ELSE IF x.eval = "either"
     THEN (* C17: its evaluation may have met the transient error; if it is installed it must be right (an error   *)
          (* on a route query is sunk: then one family may be missing)                                              *)
          (IF n \notin names THEN {}
           ELSE LET P == Get(st.eph, n)
                    a4 == AcceptAtoms(P, "inet", d)  a6 == AcceptAtoms(P, "inet6", d)
                    whole == a4 = ToSet(x.v4) /\ a6 = ToSet(x.v6)
                    partial == Has(x, "partial_ok") /\ x.partial_ok /\ a4 \in {ToSet(x.v4), {}} /\ a6 \in {ToSet(x.v6), {}}
                IN IF (whole \/ partial) /\ ~AcceptsOutsideUniverse(P, d) /\ ~FailOpen(P) THEN {}
                   ELSE {V(exp.prop, "InstalledFilterDiffersFromEvaluatedSet", "policy sharing its expression with others", e)})
     ELSE IF x.marked /\ x.eval \notin {"ok", "skip"}
     THEN (* C03: stays exactly as it was *)
          (IF (n \in names) # (n \in Names(st.start)) \/ (n \in names /\ Get(st.eph, n) # Get(st.start, n))
           THEN {V("C03", "PolicyChangedAlthoughItsDataCouldNotBeObtained", "eval=" \o x.eval, e)} ELSE {})
     ELSE {}
     : n \in (IF Has(exp, "policies") THEN DOMAIN exp.policies ELSE {})}
  \cup (IF Has(exp, "max_transient_failures") THEN
          LET eithers == {n \in DOMAIN exp.policies : exp.policies[n].eval = "either"}
              (* left out altogether; one that is installed is judged on its own above (whole, or - where the error  *)
              (* is one the evaluator sinks - without that family).  How many policies share a sunk error is not     *)
              (* judged: an agent may hand the successful evaluation of an expression to the other policies that      *)
              (* carry the same expression, which the property does not forbid                                        *)
              bad == {n \in eithers : n \notin names}
          IN IF Cardinality(bad) > exp.max_transient_failures
             THEN {V(exp.prop, "MoreEvaluationsAffectedThanErrorsInjected",
                     "policies with the same expression, one transient IRR error", e)} ELSE {}
        ELSE {})
  \cup {V("C01", "OrphanPolicyLeftInstalled", "", e) : n \in {n \in names : ~Known(exp, n) \/ ~Pol(exp, n).marked}}
  \cup (IF exp.c16 THEN
          {V("C16", "ManagedStatementNotSelected", Pol(exp, n).why, e) : n \in SelSet(exp) \ st.updated}
          \cup {V("C16", "UnmanagedStatementSelected", Pol(exp, n).why, e)
                  : n \in {n \in st.updated : Known(exp, n) /\ ~Pol(exp, n).sel}}
        ELSE {})
  \cup (IF st.repeat /\ (st.updated # {} \/ st.deleted # {}) /\
           \E n \in names : n \in Names(st.prevEnd) /\
              (AcceptAtoms(Get(st.eph, n), "inet", d) # AcceptAtoms(Get(st.prevEnd, n), "inet", d)
               \/ AcceptAtoms(Get(st.eph, n), "inet6", d) # AcceptAtoms(Get(st.prevEnd, n), "inet6", d))
        THEN {V("C01", "NotIdempotent", "", e)} ELSE {})
  \cup (IF st.repeat /\ names # Names(st.prevEnd) THEN {V("C01", "NotIdempotent", "set of installed policies changed", e)} ELSE {})

(* C13: a twin run started from the same router state with the same inputs; only the serialisation
   of the router's replies differed.  Outcome and resulting configuration must be the same. *)
SemEq(a, b, d) ==
  /\ Names(a) = Names(b)
  /\ \A n \in Names(a) :
        /\ AcceptAtoms(Get(a, n), "inet", d) = AcceptAtoms(Get(b, n), "inet", d)
        /\ AcceptAtoms(Get(a, n), "inet6", d) = AcceptAtoms(Get(b, n), "inet6", d)
        /\ FailOpen(Get(a, n)) = FailOpen(Get(b, n))
        /\ Readable(Get(a, n)) = Readable(Get(b, n))
TwinViol(st, e) ==
  IF ~st.twin THEN {}
  ELSE LET d == DenMerge(st.den, DenOf(e)) IN
    (IF st.prevOk # st.twinOk
     THEN {V("C13", "SerialisationChangesWhetherTheRunSucceeds", st.style, e)} ELSE {})
    \cup (IF st.prevOk /\ st.twinOk /\ ~SemEq(st.eph, st.twinEnd, d)
          THEN {V("C13", "SerialisationChangesTheResultingConfiguration", st.style, e)} ELSE {})

---------------------------------------------------------------------------
Step(st, e) ==
  CASE e.ev = "reset" -> [S0 EXCEPT !.instance = e.instance]
    [] e.ev = "run_start" ->
         [st EXCEPT !.expect = e.expect, !.repeat = e.repeat,
                    !.twin = Has(e, "twin") /\ e.twin, !.style = IF Has(e, "style") THEN e.style ELSE "",
                    !.twinOk = st.prevOk, !.twinEnd = st.prevEnd,
                    !.start = IF Has(e, "twin") /\ e.twin THEN st.start ELSE IF st.eph = <<>> THEN e.eph ELSE st.eph, !.staged = <<>>,
                    !.den = DenMerge(@, DenOf(e)), !.irrmode = e.irr_mode,
                    !.opened = FALSE, !.openAcked = FALSE, !.failed = FALSE, !.loadsAcked = TRUE,
                    !.commitSeen = FALSE, !.commitAcked = FALSE, !.closeDbAcked = FALSE, !.closeSessAcked = FALSE,
                    !.faulted = Has(e, "unreachable") /\ e.unreachable,      \* the router could not be reached at all
                    !.updated = {}, !.deleted = {}, !.nloads = 0, !.prevOk = FALSE,
                    !.eph = IF Has(e, "twin") /\ e.twin THEN st.start ELSE IF st.eph = <<>> THEN e.eph ELSE st.eph]
    [] e.ev = "tamper" -> [st EXCEPT !.eph = e.eph, !.prevEnd = e.eph, !.den = DenMerge(@, DenOf(e))]   \* edited by hand
    [] e.ev = "reboot" -> [st EXCEPT !.eph = <<>>, !.prevEnd = <<>>]     \* the router lost its ephemeral data
    [] e.ev = "req" -> ReqStep(st, e)
    [] e.ev = "exit" -> [st EXCEPT !.prevOk = (e.code = 0)]
    [] e.ev = "run_end" -> [st EXCEPT !.prevEnd = st.eph]
    [] OTHER -> st

LineViol(st, st1, e) ==
  CASE e.ev = "req" -> ReqViol(st, e, st1.staged)
    [] e.ev = "exit" -> ExitViol(st, e)
    [] e.ev = "run_end" -> EndViol(st, e) \cup TwinViol(st, e)
    [] e.ev = "daemon_end" ->
         (IF e.sessions_seen < e.sessions_wanted THEN {V(PropOf(st), "DaemonStoppedRunning", "fewer runs than periods elapsed", e)} ELSE {})
         \cup (IF e.exit_code # 0 THEN {V(PropOf(st), "DaemonDidNotExitCleanlyOnSigterm", "exit status " \o ToString(e.exit_code), e)} ELSE {})
         (* a panic that is contained (an unsupported construct in one policy) prints a message and nothing else *)
         \cup (IF e.panic_at # "" /\ e.exit_code # 0 THEN {V(PropOf(st), "DaemonPanicked", "", e)} ELSE {})
    [] OTHER -> {}

TInit == l = 1 /\ viol = {} /\ s = S0 /\ stats = [lines |-> 0, runs |-> 0, loads |-> 0, commits |-> 0, okruns |-> 0]
TNext == /\ l <= Len(Rec) /\ l' = l + 1
         /\ LET e == Rec[l]  s1 == Step(s, e) IN
            /\ s' = s1
            /\ viol' = Merge(viol, LineViol(s, s1, e))
            /\ stats' = [stats EXCEPT !.lines = @ + 1,
                           !.runs = IF e.ev = "run_start" THEN @ + 1 ELSE @,
                           !.loads = IF e.ev = "req" /\ e.kind = "load" THEN @ + 1 ELSE @,
                           !.commits = IF e.ev = "req" /\ e.kind = "commit" THEN @ + 1 ELSE @,
                           !.okruns = IF e.ev = "exit" /\ e.code = 0 THEN @ + 1 ELSE @]
TSpec == TInit /\ [][TNext]_tvars
Done == l > Len(Rec)
Report == Done => PrintT(<<"TRACE-RESULT", ToJson([lines |-> Len(Rec), stats |-> stats, viol |-> viol])>>)
Accepted == TLCGet("stats").diameter >= Len(Rec)
=============================================================================
