------------------------------ MODULE IrrdProto ------------------------------
(***************************************************************************)
(* The pure part of the IRRd protocol model (Irrd.tla): queries, answers,  *)
(* what the server writes, the history-free meaning of a resolver call and *)
(* the queries it sends.  Shared by the state machine (Irrd.tla, checked   *)
(* by TLC in MCIrrd) and by the judge of recorded runs (RpslTrace.tla).    *)
(***************************************************************************)
EXTENDS Naturals, Sequences, FiniteSets, TLC

(* a query is a record [c |-> "n" | "m" | "i" | "g" | "6", n |-> name]; the server's database is a function    *)
(* A : query -> [st, items] (a query outside its domain is answered D); items of !m are objects: "good"          *)
(* (carries an mp-filter) or "bad" (other class / no mp-filter)                                                 *)
Q(c, n) == [c |-> c, n |-> n]
IsErr(st) == st \in {"D", "E", "F"}
AnsOf(A, q) == IF q \in DOMAIN A THEN A[q] ELSE [st |-> "D", items |-> <<>>]

(* what the server writes for query q: status, then (for A) the items, then the end marker *)
ElementsA(A, q) ==
  LET a == AnsOf(A, q) IN
  IF a.st = "A" THEN <<[of |-> q, el |-> "st", v |-> "A"]>>
                     \o [k \in 1..Len(a.items) |-> [of |-> q, el |-> "item", v |-> a.items[k]]]
                     \o <<[of |-> q, el |-> "end", v |-> "C"]>>
  ELSE <<[of |-> q, el |-> "st", v |-> a.st]>>

(* ---- history-free meaning of a resolver call ------------------------------------------------ *)
SeqToSet(s) == {s[k] : k \in 1..Len(s)}
MembersA(A, n) == LET a == AnsOf(A, Q("i", n)) IN IF a.st = "A" THEN a.items ELSE <<>>
RoutesOfQ(A, q) == LET a == AnsOf(A, q) IN IF a.st = "A" THEN SeqToSet(a.items) ELSE {}
MeaningA(A, call) ==
  CASE call.k = "init" -> [ok |-> TRUE, val |-> {}]
    [] call.k = "fset" ->
         LET a == AnsOf(A, Q("m", call.n)) IN
         [ok |-> TRUE, val |-> IF a.st = "A" /\ "good" \in SeqToSet(a.items) THEN {"expr"} ELSE {"NOT ANY"}]
    [] call.k = "asset" ->
         IF IsErr(AnsOf(A, Q("i", call.n)).st) THEN [ok |-> FALSE, val |-> {}]
         ELSE [ok |-> TRUE, val |-> UNION {RoutesOfQ(A, Q("g", m)) \cup RoutesOfQ(A, Q("6", m)) : m \in SeqToSet(MembersA(A, call.n))}]
    [] call.k = "rset" -> [ok |-> TRUE, val |-> RoutesOfQ(A, Q("i", call.n))]
    [] call.k = "as" -> [ok |-> TRUE, val |-> RoutesOfQ(A, Q("g", call.n)) \cup RoutesOfQ(A, Q("6", call.n))]

(* the queries a call puts on the wire, in order - what the trace specification compares the fake IRRd's log with *)
QueriesOfA(A, call) ==
  CASE call.k = "init" -> <<Q("n", call.n)>>
    [] call.k = "fset" -> <<Q("m", call.n)>>
    [] call.k = "asset" -> <<Q("i", call.n)>> \o
         (LET ms == MembersA(A, call.n)
              F[k \in 0..Len(ms)] == IF k = 0 THEN <<>> ELSE F[k - 1] \o <<Q("g", ms[k]), Q("6", ms[k])>>
          IN F[Len(ms)])
    [] call.k = "rset" -> <<Q("i", call.n)>>
    [] call.k = "as" -> <<Q("g", call.n), Q("6", call.n)>>
=============================================================================
