#!/bin/sh
# Test PKI for the loopback TLS NETCONF server (generated once; 20 years validity). Not secret.
set -e
openssl req -x509 -newkey rsa:2048 -nodes -keyout ca.key -out ca.crt -days 7300 -subj "/CN=bgpfu-verif-ca" \
  -addext "basicConstraints=critical,CA:TRUE" -addext "keyUsage=critical,keyCertSign,cRLSign" 2>/dev/null
for n in server client; do
  openssl req -newkey rsa:2048 -nodes -keyout $n.key -out $n.csr -subj "/CN=$n" 2>/dev/null
  printf "subjectAltName=DNS:localhost,IP:127.0.0.1\nbasicConstraints=CA:FALSE\nkeyUsage=digitalSignature,keyEncipherment\nextendedKeyUsage=serverAuth,clientAuth\n" > $n.ext
  openssl x509 -req -in $n.csr -CA ca.crt -CAkey ca.key -CAcreateserial -out $n.crt -days 7300 -extfile $n.ext 2>/dev/null
  rm -f $n.csr $n.ext
done
rm -f ca.srl
