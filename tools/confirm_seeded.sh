#!/bin/sh
# Confirms the seeded changes under /verif/seeded in a scratch worktree of /repo (never in /repo itself):
# for each change: demo passes on the clean base, the change compiles, the existing suite still passes,
# the demo fails with the change.  usage: confirm_seeded.sh <base-commit> <scratch-dir> <id> [<id> ...]
base=$1; scratch=$2; shift 2
set -u
[ -d "$scratch" ] || git -C /repo worktree add -q --detach "$scratch" "$base" || exit 2
export CARGO_NET_OFFLINE=true
for id in "$@"; do
  d=/verif/seeded/$id
  log=$d/confirm.log
  : > "$log"
  git -C "$scratch" checkout -q -- . ; git -C "$scratch" clean -qfd -e target
  if [ ! -x "$d/demo/run_demo.sh" ]; then echo "no run_demo.sh" >> "$log"; echo "$id: NO-SCRIPT"; continue; fi
  echo "== clean tree ($base): demo" >> "$log"
  r0=$(sh "$d/demo/run_demo.sh" "$scratch" 2>&1 | tee -a "$log" | grep -o 'DEMO_RESULT=[a-z]*' | tail -1)
  git -C "$scratch" checkout -q -- . ; git -C "$scratch" clean -qfd -e target
  echo "== apply patch.diff" >> "$log"
  if ! git -C "$scratch" apply "$d/patch.diff" >> "$log" 2>&1; then echo "$id: PATCH-DOES-NOT-APPLY" | tee -a "$log"; continue; fi
  echo "== cargo build --workspace" >> "$log"
  (cd "$scratch" && timeout 1200 cargo build --workspace --offline >> "$log" 2>&1); b=$?
  echo "== cargo test --workspace" >> "$log"
  t=$(cd "$scratch" && timeout 1500 cargo test --workspace --no-fail-fast --offline 2>&1 | tee -a "$log" | grep -E '^test result' | awk '{p+=$4; f+=$6} END {print p "/" f}')
  echo "== with patch: demo" >> "$log"
  r1=$(sh "$d/demo/run_demo.sh" "$scratch" 2>&1 | tee -a "$log" | grep -o 'DEMO_RESULT=[a-z]*' | tail -1)
  git -C "$scratch" checkout -q -- . ; git -C "$scratch" clean -qfd -e target
  verdict="clean:$r0 build_rc:$b tests(passed/failed):$t patched:$r1"
  echo "SUMMARY $id $verdict" | tee -a "$log"
done
