#!/usr/bin/env python3
"""C06 (framing independent of segmentation) and C07 (disconnect is an error) - Framing.tla."""
import json, os, time, random
from vlib import *

TRACE_CFG = """SPECIFICATION TSpec
INVARIANT Report
POSTCONDITION Accepted
CHECK_DEADLOCK FALSE
"""
TRANSPORTS = ["tls", "local", "ssh"]

def design_checks(prop, tier):
    runs = []
    bodies = "BodiesFull" if tier == "thorough" else "BodiesSmall"
    for kind in ("loop", "pump"):
        consts = {"Kind": f'"{kind}"', "MaxMsgs": 2, "FixSearch": "TRUE", "FixEof": "TRUE", "FixPump": "TRUE", "FixNone": "TRUE"}
        text = cfg(constants=consts, invariants=["InOrderOnce", "Prompt", "NoSpin"],
                   properties=["EofIsError", "AllDelivered"] if tier == "thorough" or kind == "pump" else [],
                   extra_lines=[f"CONSTANT Bodies <- {bodies}", "CONSTRAINT StateConstraint"])
        r = run_tlc("MCFraming", text, f"{prop}-design-{kind}", workers=12)
        if r["violated"]:
            raise ToolError(f"design check {r['name']} violated {r['violated']} (see {r['out']})")
        runs.append(r)
    return runs

def tlc_cases(family, name):
    r = run_tlc("FramingGen", f'SPECIFICATION Spec\nCONSTANTS Family = "{family}"\n', name, workers=1, java_opts="-Xss512m")
    for line in open(r["out"], errors="replace"):
        if line.startswith('<<"GEN", '):
            return json.loads(json.loads(line.strip()[len('<<"GEN", '):-2]))["cases"], r
    raise ToolError(f"FramingGen printed no cases ({r['out']})")

def near_delimiter(c):
    """cuts that fall inside or next to an end-of-message delimiter or in the first bytes of the next message"""
    pos = 0; hot = set()
    for b in c["bodies"]:
        ln = 6 + len(b) + 6
        hot.update(range(pos + ln - 7, pos + ln + 4))
        pos += ln
    return any(x in hot for x in c["cuts"])

def corner(c):
    """always run: nothing cut at all (several messages in one write), one cut exactly on a message boundary,
    and anything with a big body"""
    ends = []; pos = 0
    for b in c["bodies"]:
        pos += 6 + len(b) + 6; ends.append(pos)
    return (not c["cuts"]) or (len(c["cuts"]) == 1 and c["cuts"][0] in ends) or any("X" in b for b in c["bodies"]) and len(c["cuts"]) <= 1

def select(prop, tier, rng):
    fams = ["F1", "F2", "F3", "F8", "F9", "F10", "F11", "F12", "F14"] if prop == "C06" else ["F4", "F5", "F3", "F7", "F13"]
    universe, gens = {}, []
    for f in fams:
        cases, r = tlc_cases(f, f"{prop}-gen-{f}")
        universe[f] = cases; gens.append(r)
    chosen = []
    for f, cases in universe.items():
        if tier == "thorough":
            budget = {"F1": 600, "F2": 1500, "F3": 12, "F4": 1000, "F5": 200, "F7": 100, "F8": 100, "F9": 100, "F10": 400, "F11": 20, "F12": 20, "F13": 60, "F14": 10}[f]
        else:
            budget = {"F1": 110, "F2": 150, "F3": 12, "F4": 120, "F5": 40, "F7": 100, "F8": 100, "F9": 100, "F10": 60, "F11": 20, "F12": 20, "F13": 60, "F14": 10}[f]
        if len(cases) <= budget:
            pick = list(cases)
        else:
            pick = [c for c in cases if corner(c)] if f in ("F1", "F2") else []
            hot = [c for c in cases if near_delimiter(c) and c not in pick] if f in ("F1", "F2") else []
            rng.shuffle(hot)
            pick += hot[: max(0, budget - len(pick)) * 2 // 3]
            rest = [c for c in cases if c not in pick]
            pick += rng.sample(rest, max(0, budget - len(pick)))
        for c in pick:
            c = dict(c); c["family"] = f
            chosen.append(c)
    return chosen, universe, gens

def check(prop, tier):
    t0 = time.time()
    verdict = Verdict(prop)
    wd = workdir(f"{prop}-{tier}")
    build_harness(["framing"])
    tlc_runs = design_checks(prop, tier)
    rng = random.Random(seed())
    chosen, universe, gens = select(prop, tier, rng)
    tlc_runs += gens
    cases = []
    for tr in TRANSPORTS:
        for k, c in enumerate(chosen):
            if c["family"] == "F7" and not c["hello_close"].startswith(tr + "-"):
                continue        # a stage of another transport's set-up
            if c["family"] == "F12" and tr != "ssh":
                continue        # channel data ahead of the answer to the subsystem request: SSH only
            d = dict(c); d["transport"] = tr; d["case"] = f"{tr}-{c['family']}-{k}"
            cases.append(d)
    cpath = os.path.join(wd, "cases.ndjson")
    with open(cpath, "w") as f:
        for c in cases:
            f.write(json.dumps(c) + "\n")
    trace = os.path.join(wd, "frames.trace")
    run_harness("framing", ["run", cpath, wd, 8], trace, timeout=3000)
    nlines = sum(1 for _ in open(trace))
    if nlines < len(cases):
        log(f"note: {len(cases) - nlines} cases not executed (run stopped after too many hangs)")
    stats, viols = validate_trace("FramingTrace", trace, prop, f"{prop}-{tier}", TRACE_CFG, nchunks=8, independent=True)
    bycase = {c["case"]: c for c in cases}
    for v in viols:
        if v["prop"] != prop:
            continue
        case = bycase.get(v.get("case"))
        payload = {"property": prop, "rule": v["rule"], "disc": v["disc"], "occurrences": v.get("n", 1),
                   "case": case, "how_to_replay": f"./bin/check {prop} --replay <this file>"}
        verdict.report(v["rule"], v["disc"], payload, detail=f"case={v.get('case')} n={v.get('n', 1)}")
    cov = {"states": sum(r["distinct"] for r in tlc_runs), "transitions": sum(r["generated"] for r in tlc_runs),
           "traces_validated_against_impl": stats["lines"],
           "samples": [cases[0], cases[len(cases) // 2], cases[-1]],
           "tlc_runs": [{"name": r["name"], "distinct": r["distinct"], "generated": r["generated"], "wall_s": r["wall_s"]} for r in tlc_runs],
           "case_universe_enumerated_by_tlc": {f: len(c) for f, c in universe.items()},
           "cases_per_transport": len(chosen), "transports": TRANSPORTS,
           "cases_with_cuts_or_closes": stats.get("nontrivial"), "cases_with_a_close": stats.get("closes"),
           "exhaustive": False,
           "known_findings_reproduced": verdict.known_hits,
           "rule": "design: TLC explores both receiver shapes (search-loop of tls/junos_local, pump task of ssh) for all chunkings of all "
                   "1-2 message streams over the body set and all close points; real code: TLC-enumerated cases (bodies incl. proper "
                   "prefixes of the delimiter x cut sets <= 2 x close kind/position x hello cuts) are executed against the real TLS, "
                   "child-process and SSH transports, the peer writing one chunk per TLS record / pipe write / channel-data packet; "
                   "FramingTrace.tla computes Messages(stream sent) and compares with what every operation returned"}
    write_evidence(prop, tier, "model_checking" if prop == "C06" else "fault_enumeration",
                   dict(cov, evaluations=stats["lines"], distinct_nontrivial=stats.get("nontrivial", 0)),
                   ["chunk boundaries are imposed by the peer with a 4 ms pause between writes; the kernel may still coalesce them "
                    "(coverage, not soundness, depends on it)",
                    "hang verdicts use a 2.5 s per-operation watchdog inside a per-case process that is killed after 12 s",
                    "after an abrupt close (TCP reset / SIGKILL) already received complete messages may be lost"],
                   time.time() - t0, len(verdict.violations))
    return verdict.exit_code()

def replay(prop, path):
    payload = json.load(open(path))
    build_harness(["framing"])
    wd = workdir(f"{prop}-replay")
    cpath = os.path.join(wd, "cases.ndjson")
    open(cpath, "w").write(json.dumps(payload["case"]) + "\n")
    trace = os.path.join(wd, "frames.trace")
    run_harness("framing", ["run", cpath, wd, 1], trace)
    print(open(trace).read())
    stats, viols = validate_trace("FramingTrace", trace, prop, f"{prop}-replay", TRACE_CFG, nchunks=1, independent=True)
    verdict = Verdict(prop)
    for v in viols:
        if v["prop"] == prop:
            verdict.report(v["rule"], v["disc"], payload)
    return verdict.exit_code()
