#!/usr/bin/env python3
"""Confirms a seeded change delivered by a sub-agent, in a scratch worktree of /repo (never in /repo itself):
  1. clean tree: demo prints DEMO_RESULT=pass
  2. patch applied: builds, the existing suite passes unedited, demo prints DEMO_RESULT=fail
and imports it into /verif/seeded/<id>/ (patch.diff, notes.md, demo/, meta.json, confirm.log) when all of that holds.
usage: confirm_seeded.py <lane> <delivery-dir> [<delivery-dir> ...]      (delivery-dir = .../out/<Cxx-n>)
A lane is a persistent scratch worktree /tmp/confirm/lane<lane> (warm target directory); remove it when done."""
import json, os, re, shutil, subprocess, sys, time
SEED = os.path.join(os.path.dirname(os.path.abspath(__file__)), "..", "seeded")

def sh(cmd, cwd=None, timeout=3600):
    p = subprocess.run(cmd, shell=True, cwd=cwd, text=True, stdout=subprocess.PIPE, stderr=subprocess.STDOUT, timeout=timeout)
    return p.returncode, p.stdout

def main():
    lane = sys.argv[1]; wt = f"/tmp/confirm/lane{lane}"
    if not os.path.exists(wt):
        os.makedirs("/tmp/confirm", exist_ok=True)
        rc, out = sh(f"git -C /repo worktree add --detach {wt} HEAD")
        if rc: print(out); return 2
    head = sh("git -C /repo rev-parse --short HEAD")[1].strip()
    for d in sys.argv[2:]:
        d = d.rstrip("/"); cid = os.path.basename(d); log = []
        def note(s): log.append(s); print(f"[{cid}] {s}", flush=True)
        sh("git checkout -q --detach " + head + " && git checkout -q -- . && git clean -qfd -e target", cwd=wt)
        patch = next(os.path.join(d, x) for x in ("patch.rebased.diff", "patch.diff") if os.path.exists(os.path.join(d, x)) or x == "patch.diff"); demo = os.path.join(d, "demo", "run_demo.sh")
        if not (os.path.exists(patch) and os.path.exists(demo)):
            note("incomplete delivery"); continue
        t0 = time.time()
        rc, out = sh(f"bash {demo} {wt}", timeout=2400); clean = re.findall(r"DEMO_RESULT=(\w+)", out)
        note(f"demo on clean tree: rc={rc} {clean} ({round(time.time()-t0)} s)")
        dirty = sh("git status --porcelain", cwd=wt)[1].strip()
        if dirty: note("demo left the tree dirty: " + dirty[:200]); sh("git checkout -q -- . && git clean -qfd -e target", cwd=wt)
        rc, out = sh(f"git apply --check {patch} && git apply {patch}", cwd=wt)
        if rc: note("patch does not apply: " + out[-300:]); continue
        rc, out = sh("cargo build --workspace --offline -j 6 2>&1 | tail -5", cwd=wt); build_rc = rc
        rc, out = sh("cargo test --workspace --no-fail-fast --offline -j 6 2>&1", cwd=wt)
        passed = sum(int(x) for x in re.findall(r"test result: \w+\. (\d+) passed", out)); failed = sum(int(x) for x in re.findall(r"(\d+) failed;", out))
        note(f"with patch: build rc={build_rc}, tests passed={passed} failed={failed} rc={rc}")
        t0 = time.time()
        rc2, out2 = sh(f"bash {demo} {wt}", timeout=2400); with_patch = re.findall(r"DEMO_RESULT=(\w+)", out2)
        note(f"demo with patch: rc={rc2} {with_patch} ({round(time.time()-t0)} s)")
        sh("git checkout -q -- . && git clean -qfd -e target", cwd=wt)
        ok = clean == ["pass"] and with_patch == ["fail"] and rc == 0 and failed == 0 and passed >= 57
        note("CONFIRMED" if ok else "NOT CONFIRMED")
        if not ok:
            open(os.path.join(d, "confirm.log"), "w").write("\n".join(log) + "\n\n" + out2[-3000:]); continue
        t = os.path.join(SEED, cid)
        if os.path.exists(t): shutil.rmtree(t)
        shutil.copytree(d, t, ignore=shutil.ignore_patterns("target", "*.log"))
        notes = open(os.path.join(t, "notes.md")).read() if os.path.exists(os.path.join(t, "notes.md")) else ""
        meta = {"breaks_property": cid.split("-")[0], "written_for_property": cid.split("-")[0], "title": notes.strip().split("\n")[0].lstrip("# "),
                "needs_to_manifest": "see notes.md", "base_commit_of_patch": head, "batch": int(os.environ.get("SEED_BATCH", "5")), "demo_confirmed": True,
                "confirmation": {"demo_on_clean_tree": "pass", "tests_passed": passed, "tests_failed": failed, "demo_with_change": "fail",
                                 "how": "tools/confirm_seeded.py in a scratch worktree at base_commit_of_patch"}}
        json.dump(meta, open(os.path.join(t, "meta.json"), "w"), indent=1)
        open(os.path.join(t, "confirm.log"), "w").write("\n".join(log) + "\n")
    return 0
sys.exit(main())
