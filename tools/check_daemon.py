#!/usr/bin/env python3
"""C19 - daemon back-off and signals: Daemon.tla / MCDaemon / DaemonGen / DaemonTrace."""
import json, os, time, random
from vlib import *

TRACE_CFG = """SPECIFICATION TSpec
INVARIANT Report
POSTCONDITION Accepted
CHECK_DEADLOCK FALSE
"""

def apalache(args, name, expect_ok=True):
    """One Apalache run on spec/Backoff.tla (unbounded integers).  Returns wall time."""
    import subprocess
    wd = workdir("apalache-" + name)
    t0 = time.time()
    try:
        p = subprocess.run(["apalache-mc", "check", f"--out-dir={wd}", f"--run-dir={wd}/run"] + args + [os.path.join(SPEC, "Backoff.tla")],
                           cwd=wd, stdout=subprocess.PIPE, stderr=subprocess.STDOUT, text=True, timeout=900)
    except subprocess.TimeoutExpired:
        raise ToolError(f"apalache timed out on {name}")
    open(os.path.join(wd, "apalache.out"), "w").write(p.stdout)
    ok = "EXITCODE: OK" in p.stdout
    bad = "EXITCODE: ERROR (12)" in p.stdout          # invariant violation found
    if expect_ok and not ok:
        raise ToolError(f"apalache obligation {name} not discharged (see {wd}/apalache.out)")
    if not expect_ok and not bad:
        raise ToolError(f"apalache negative control {name} found no violation (see {wd}/apalache.out)")
    return {"name": name, "wall_s": round(time.time() - t0, 1), "discharged": ok}

def backoff_proof():
    """The back-off arithmetic for EVERY period: inductive invariant by Apalache (Backoff.tla)."""
    obl = [apalache(["--cinit=ConstInit", "--init=Init", "--length=0", "--inv=IndInv"], "init-implies-indinv"),
           apalache(["--cinit=ConstInit", "--init=IndInit", "--length=1", "--inv=IndInv"], "indinv-is-inductive"),
           apalache(["--cinit=ConstInit", "--init=IndInit", "--length=0", "--inv=Contract"], "indinv-implies-contract")]
    ctl = apalache(["--cinit=ConstInitAsFound", "--init=Init", "--length=4", "--inv=Contract"], "asfound-violates-contract", expect_ok=False)
    return obl, ctl

def check(prop, tier):
    t0 = time.time()
    verdict = Verdict(prop)
    wd = workdir(f"{prop}-{tier}")
    build_harness(["daemon"])
    runs = []
    for period in (10, 45, 60, 100, 300):
        r = run_tlc("MCDaemon", cfg(constants={"Period": period, "MaxRuns": 8 if tier == "thorough" else 6, "FixCap": "TRUE", "ResetOnHup": "FALSE", "SwallowHup": "FALSE"},
                                    invariants=["Contract", "NeverBusy", "SighupServed"]), f"{prop}-design-{period}", workers=4)
        if r["violated"]:
            raise ToolError(f"design check {r['name']} violated {r['violated']} (see {r['out']})")
        runs.append(r)
    # the model must be able to express the two deviations around SIGHUP (negative controls)
    for dev, inv in (("ResetOnHup", "Contract"), ("SwallowHup", "SighupServed")):
        consts = {"Period": 300, "MaxRuns": 5, "FixCap": "TRUE", "ResetOnHup": "FALSE", "SwallowHup": "FALSE"}
        consts[dev] = "TRUE"
        n = run_tlc("MCDaemon", cfg(constants=consts, invariants=["Contract", "NeverBusy", "SighupServed"]), f"{prop}-design-{dev}", workers=2)
        if n["violated"] != inv:
            raise ToolError(f"MCDaemon: the deviation {dev} = TRUE was not refuted by {inv} (see {n['out']})")
        n["violated"] = None; n["name"] += f" (expected {inv} violation: seen)"
        runs.append(n)
    obligations, control = backoff_proof()
    depth = 6 if tier == "thorough" else 4
    g = run_tlc("DaemonGen", f"SPECIFICATION Spec\nCONSTANTS Depth = {depth}\n", f"{prop}-gen", workers=1, java_opts="-Xss512m")
    cases = None
    for line in open(g["out"], errors="replace"):
        if line.startswith('<<"GEN", '):
            gen = json.loads(json.loads(line.strip()[len('<<"GEN", '):-2]))
            cases, long_cases = gen["cases"], gen["long"]
    if not cases:
        raise ToolError("DaemonGen printed no cases")
    rng = random.Random(seed())
    rng.shuffle(cases)
    budget = 3600 if tier == "thorough" else 700
    # a share of the budget for every family: no signal, a signal in a waiting interval, one racing with the timer, one
    # that arrives while a run is in progress
    fam = lambda c: "none" if not c["signals"] else "during" if c["signals"][0].get("during") else "tick" if c["signals"][0].get("same_poll") else "wait"
    chosen = []
    for f, share in (("none", 0.3), ("wait", 0.35), ("tick", 0.15), ("during", 0.2)):
        chosen += [c for c in cases if fam(c) == f][: int(budget * share)]
    for c in long_cases:
        c["horizon"] = len(c["jobs"]) * max(60, c["period"]) + 200
    chosen += long_cases
    cpath = os.path.join(wd, "cases.ndjson")
    with open(cpath, "w") as f:
        for k, c in enumerate(chosen):
            c = dict(c); c["case"] = f"d{k}"; c.setdefault("horizon", 4000)
            f.write(json.dumps(c) + "\n")
    trace = os.path.join(wd, "daemon.trace")
    run_harness("daemon", ["run", cpath, 14], trace, timeout=3000)
    stats, viols = validate_trace("DaemonTrace", trace, prop, f"{prop}-{tier}", TRACE_CFG, nchunks=8)
    bycase = {f"d{k}": c for k, c in enumerate(chosen)}
    for v in viols:
        payload = {"property": prop, "rule": v["rule"], "disc": v["disc"], "occurrences": v.get("n", 1),
                   "case": dict(bycase.get(v.get("case"), {}), case=v.get("case")), "events": trace_slice(trace, v.get("case"), 60)}
        verdict.report(v["rule"], v["disc"], payload, detail=f"case={v.get('case')} n={v.get('n', 1)}")
    # the binary as shipped, in daemon mode, first run failing: stays up, runs again on SIGHUP, leaves cleanly on SIGTERM
    import check_agent, agentgen
    build_harness(["agentrun"]); build_repo_bins()
    bsc = agentgen.c19_binary_scenarios(prop)
    awd = workdir(f"{prop}-{tier}-binary")
    atrace, astats, aviols = check_agent.run_and_validate(prop, tier + "-binary", bsc, awd)
    byb = {s["case"]: s for s in bsc}
    for v in aviols:
        if v["prop"] == "TOOL":
            raise ToolError(f"{v['rule']} in case {v.get('case')}: the fake router and Junos.tla disagree")
        if v["prop"] == prop:
            verdict.report(v["rule"], v["disc"], {"property": prop, "rule": v["rule"], "disc": v["disc"], "scenario": byb.get(v.get("case")),
                                                  "events": trace_slice(atrace, v.get("case"), 80)}, detail=f"case={v.get('case')} n={v.get('n', 1)}")
    cov = {"binary_in_daemon_mode": {"scenarios": len(bsc), "runs": astats.get("runs"), "first_run": [s["meta"]["first_run"] for s in bsc]},
           "states": sum(r["distinct"] for r in runs), "transitions": sum(r["generated"] for r in runs),
           "traces_validated_against_impl": stats.get("cases", 0), "samples": [chosen[0], chosen[-1]],
           "histories_enumerated_by_tlc": len(cases), "histories_run_on_the_real_loop": len(chosen),
           "run_starts_judged": stats.get("starts"), "retry_delays_judged": stats.get("retries"), "signals_raised": stats.get("signals"),
           "apalache_inductive_invariant": {"module": "Backoff.tla", "for": "every period >= 1 s (unbounded integers)",
                                            "obligations": len(obligations), "discharged": sum(1 for o in obligations if o["discharged"]),
                                            "runs": obligations, "negative_control_as_found_cap": control},
           "tlc_runs": [{"name": r["name"], "distinct": r["distinct"], "generated": r["generated"]} for r in runs],
           "exhaustive": len(chosen) == len(cases), "known_findings_reproduced": verdict.known_hits,
           "rule": f"periods 10/45/60/100/300 s x all outcome sequences of length {depth} x (no signal | one SIGHUP/SIGINT/SIGTERM placed 1 s or "
                   "just before the earliest possible next start after any run); executed by the real Loop::start under tokio's paused clock "
                   "advanced 1 s at a time, with real signals; DaemonTrace.tla checks every delay between runs, SIGHUP immediacy, prompt clean exit"}
    write_evidence(prop, tier, "model_checking", cov,
                   ["the job outcome is scripted through the cfg-guarded hook bgpfu_junos_agent::verif (the NETCONF/IRR round trip is replaced, the loop is the real one)",
                    "signals are raised while the loop is waiting, at the instant its timer fires (either may be served first: both orders accepted) and while a run is in progress (SIGHUP: a run right behind the current one; SIGINT/SIGTERM: exit when they arrive or when the run ends)"],
                   time.time() - t0, len(verdict.violations))
    return verdict.exit_code()

def replay(prop, path):
    payload = json.load(open(path))
    if payload.get("scenario"):
        import check_agent
        build_harness(["agentrun"]); build_repo_bins()
        trace, stats, viols = check_agent.run_and_validate(prop, "replay", [payload["scenario"]], workdir(f"{prop}-replay"))
        print(open(trace).read()[:20000])
        verdict = Verdict(prop)
        for v in viols:
            if v["prop"] == prop:
                verdict.report(v["rule"], v["disc"], payload)
        return verdict.exit_code()
    build_harness(["daemon"])
    wd = workdir(f"{prop}-replay")
    cpath = os.path.join(wd, "cases.ndjson")
    open(cpath, "w").write(json.dumps(payload["case"]) + "\n")
    trace = os.path.join(wd, "daemon.trace")
    run_harness("daemon", ["run", cpath, 1], trace)
    print(open(trace).read())
    stats, viols = validate_trace("DaemonTrace", trace, prop, f"{prop}-replay", TRACE_CFG, nchunks=1)
    verdict = Verdict(prop)
    for v in viols:
        verdict.report(v["rule"], v["disc"], payload)
    return verdict.exit_code()
