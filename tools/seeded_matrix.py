#!/usr/bin/env python3
"""Applies each seeded change under /verif/seeded to /repo's working tree (never committed), runs the quick
checks of the property it breaks (plus any named in meta.json "also_run"), records which check reports a
violation, restores the tree.  usage: seeded_matrix.py [<id> ...]   (writes seeded/MATRIX.json, seeded/MATRIX.md)
The repository must be clean before and is clean after."""
import json, os, subprocess, sys, time, re
ROOT = os.path.join(os.path.dirname(os.path.abspath(__file__)), "..")
SEED = os.path.join(ROOT, "seeded")
REPO = os.environ.get("VERIF_REPO", "/repo")

def sh(cmd, **kw):
    return subprocess.run(cmd, shell=True, text=True, stdout=subprocess.PIPE, stderr=subprocess.STDOUT, **kw)

def clean():
    sh(f"git -C {REPO} reset -q --hard HEAD && git -C {REPO} clean -qfd")

def main():
    if sh(f"git -C {REPO} status --porcelain").stdout.strip():
        print("repository not clean"); return 2
    ids = sys.argv[1:] or sorted(d for d in os.listdir(SEED) if os.path.isdir(os.path.join(SEED, d)))
    mpath = os.path.join(SEED, "MATRIX.json")
    matrix = json.load(open(mpath)) if os.path.exists(mpath) else {}
    head = sh(f"git -C {REPO} rev-parse --short HEAD").stdout.strip()
    for i in ids:
        d = os.path.join(SEED, i)
        meta = json.load(open(os.path.join(d, "meta.json")))
        patch = next((os.path.join(d, p) for p in ("patch.rebased.diff", "patch.diff") if os.path.exists(os.path.join(d, p))), None)
        applied = sh(f"git -C {REPO} apply --check {patch}").returncode == 0 and sh(f"git -C {REPO} apply {patch}").returncode == 0
        row = {"patch": os.path.basename(patch), "repo_head": head, "applies": applied, "checks": {}}
        if applied:
            props = [meta["breaks_property"]] + [p for p in meta.get("also_run", []) if p != meta["breaks_property"]]
            for p in props:
                t0 = time.time()
                r = sh(f"{ROOT}/bin/check {p} quick", timeout=3600)
                rules = sorted(set(re.findall(r"rule=(\S+)", r.stdout)))
                row["checks"][p] = {"exit": r.returncode, "rules": rules[:6], "wall_s": round(time.time() - t0)}
            row["caught_by"] = [p for p, c in row["checks"].items() if c["exit"] == 1]
        clean()
        matrix[i] = row
        print(i, "applies" if applied else "DOES-NOT-APPLY", row.get("caught_by"), {p: c["exit"] for p, c in row["checks"].items()}, flush=True)
        json.dump(matrix, open(mpath, "w"), indent=1)
    with open(os.path.join(SEED, "MATRIX.md"), "w") as f:
        f.write("| change | breaks | patch applies to HEAD | quick checks run (exit) | caught by | rules |\n|---|---|---|---|---|---|\n")
        for i in sorted(matrix):
            r = matrix[i]; meta = json.load(open(os.path.join(SEED, i, "meta.json")))
            f.write(f"| {i} | {meta['breaks_property']} | {r['applies']} ({r['patch']}) | " + ", ".join(f"{p}:{c['exit']}" for p, c in r["checks"].items())
                    + f" | {', '.join(r.get('caught_by', [])) or '-'} | " + "; ".join(",".join(c["rules"][:3]) for c in r["checks"].values() if c["rules"]) + " |\n")
    return 0
sys.exit(main())
