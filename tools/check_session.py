#!/usr/bin/env python3
"""C05 (own reply / progress) and C18 (dropped reply futures) - Session.tla."""
import json, os, time, random
from vlib import *

TRACE_CFG = """SPECIFICATION TSpec
CONSTANT N = 9 SyncMap = TRUE
INVARIANT TraceModelSafe
INVARIANT Report
POSTCONDITION Accepted
CHECK_DEADLOCK FALSE
"""

def mc_consts(**kw):
    c = {"N": 3, "SyncMap": "TRUE", "Grain": '"poll"', "MaxDrops": 0, "Faults": "FALSE", "Modes": tla_set(["free", "after", "before"]),
         "BadRpc": "TRUE", "MaxPush": 3, "DropHolding": "FALSE"}
    c.update(kw)
    return c

def gen_consts(**kw):
    c = {"N": 3, "SyncMap": "TRUE", "MaxDrops": 0, "Faults": "FALSE", "Modes": tla_set(["free", "after", "before"]),
         "BadRpc": "FALSE", "MaxPush": 3, "DropHolding": "TRUE", "WithClose": "TRUE"}
    c.update(kw)
    return c

def design_checks(prop, tier):
    """TLC on the implementation-shaped model; a failure here is a defect of the specification
    (tool error), except for the named deviation of C18 (reply lost by a dropped reader)."""
    runs = []
    thorough = tier == "thorough"
    inv = ["InvSafety", "InvProgress", "InvSurvivor", "InvNoLoss", "InvClose"]
    # threads: every await point is an interleaving point; liveness under fairness
    r = run_tlc("MCSession", cfg(constants=mc_consts(Grain='"micro"', Modes=tla_set(["free"]), MaxPush=3),
                                 invariants=inv, properties=["AllDone"]), f"{prop}-micro-live", workers=8)
    runs.append(r)
    # 4 requests (0.6 M states), thorough 5 (21 M states, about 5 minutes)
    n = 5 if thorough else 4
    r = run_tlc("MCSession", cfg(constants=mc_consts(Grain='"micro"', N=n, MaxPush=n), invariants=inv),
                f"{prop}-micro", workers=12 if thorough else 8, timeout=3000)
    runs.append(r)
    if prop == "C05":
        r = run_tlc("MCSession", cfg(constants=mc_consts(Faults="TRUE", N=3 if thorough else 2,
                                                         MaxPush=4 if thorough else 3), invariants=inv),
                    f"{prop}-poll-faults", workers=12 if thorough else 8)
        runs.append(r)
    else:
        # drops at every suspension point of a reply future: nothing is lost, nobody is left waiting
        r = run_tlc("MCSession", cfg(constants=mc_consts(MaxDrops=2, DropHolding="TRUE", BadRpc="FALSE"), invariants=inv),
                    f"{prop}-poll-drops", workers=8)
        runs.append(r)
        r = run_tlc("MCSession", cfg(constants=mc_consts(Grain='"micro"', N=4, MaxPush=4, MaxDrops=3 if thorough else 2, DropHolding="TRUE",
                                                         BadRpc="FALSE"),
                                     invariants=inv), f"{prop}-micro-drops", workers=12, timeout=3000)
        runs.append(r)
    for r in runs:
        if r["violated"]:
            raise ToolError(f"design check {r['name']} violated {r['violated']} - the specification itself is wrong "
                            f"for the code at HEAD (see {r['out']})")
    return runs

def deviation_check(verdict):
    """Negative control: the model of the code as found (SyncMap = FALSE: async map lock held by rpc() across
    send()) must still lose a reply when a reader is dropped while holding it (InvNoLoss) - the defect that
    was repaired by registering before sending behind a non-async lock."""
    r2 = run_tlc("MCSession", cfg(constants=mc_consts(SyncMap="FALSE", MaxDrops=1, DropHolding="TRUE", BadRpc="FALSE"),
                                  invariants=["InvNoLoss"]), "C18-asfound-loss", workers=4)
    if r2["violated"] != "InvNoLoss":
        raise ToolError(f"Session.tla no longer reproduces the repaired C18 defect with SyncMap = FALSE (see {r2['out']})")
    r2 = dict(r2, violated=None, name=r2["name"] + " (expected InvNoLoss violation: seen)")
    return [r2], True

def generate_walks(prop, tier, wd):
    thorough = tier == "thorough"
    drops = 0 if prop == "C05" else (2 if thorough else 1)
    consts = gen_consts(MaxDrops=drops)
    r = run_tlc("MCSessionGen", cfg(constants=consts, invariants=["InvSafety", "InvProgress"],
                                    extra_lines=["ACTION_CONSTRAINT Edge", "VIEW View"]),
                f"{prop}-gen", workers=1, timeout=3000)
    if r["violated"]:
        raise ToolError(f"generator model violated {r['violated']} (see {r['out']})")
    cases = os.path.join(wd, "walks.cases")
    import subprocess
    args = ["python3", os.path.join(VERIF, "tools", "walks.py"), r["out"], cases, "--max-len", "40", "--seed", str(seed()),
            "--prefix", "w"]
    if not thorough:
        args += ["--max-walks", "2500"]
    p = subprocess.run(args, stdout=subprocess.PIPE, text=True)
    if p.returncode != 0:
        raise ToolError("walk generation failed: " + p.stdout)
    summary = json.loads(p.stdout)
    runs = [r]
    extra = []
    if prop == "C05":
        # walks through protocol faults of the peer (stray / duplicate / malformed replies, close,
        # cancelled rpc()) on a smaller instance
        r2 = run_tlc("MCSessionGen", cfg(constants=gen_consts(N=2, Faults="TRUE", BadRpc="TRUE", WithClose="FALSE", MaxPush=3 if thorough else 2),
                                         invariants=["InvSafety", "InvProgress"],
                                         extra_lines=["ACTION_CONSTRAINT Edge", "VIEW View"]),
                     f"{prop}-gen-faults", workers=1, timeout=3000)
        if r2["violated"]:
            raise ToolError(f"generator model violated {r2['violated']} (see {r2['out']})")
        cases2 = os.path.join(wd, "walks-faults.cases")
        args = ["python3", os.path.join(VERIF, "tools", "walks.py"), r2["out"], cases2, "--max-len", "40", "--seed", str(seed()),
                "--prefix", "wf"]
        if not thorough:
            args += ["--max-walks", "1500"]
        p = subprocess.run(args, stdout=subprocess.PIPE, text=True)
        if p.returncode != 0:
            raise ToolError("walk generation failed: " + p.stdout)
        s2 = json.loads(p.stdout)
        runs.append(r2)
        extra.append((cases2, s2))
    return runs, [(cases, summary)] + extra

FRAME_CFG = """SPECIFICATION TSpec
INVARIANT Report
POSTCONDITION Accepted
CHECK_DEADLOCK FALSE
"""

def transport_drop_cases(verdict, wd, tier):
    """C18 over the real transports: the reader of a half-received message is dropped."""
    import check_framing
    cases, gr = check_framing.tlc_cases("F6", "C18-gen-F6")
    out = []
    for tr in check_framing.TRANSPORTS:
        for k, c in enumerate(cases):
            d = dict(c); d.update({"transport": tr, "case": f"{tr}-F6-{k}", "family": "F6",
                                   "pause_after_first_ms": 150, "drop_first_after_ms": 50})
            out.append(d)
    cpath = os.path.join(wd, "dropmid.ndjson")
    with open(cpath, "w") as f:
        for c in out:
            f.write(json.dumps(c) + "\n")
    trace = os.path.join(wd, "dropmid.trace")
    run_harness("framing", ["run", cpath, wd, 8], trace)
    stats, viols = validate_trace("FramingTrace", trace, "C18", "C18-dropmid", FRAME_CFG, nchunks=2, independent=True)
    dropped = sum(1 for l in open(trace) if '"out":"dropped"' in l)
    bycase = {c["case"]: c for c in out}
    for v in viols:
        if v["prop"] != "C18":
            continue
        verdict.report(v["rule"], v["disc"], {"property": "C18", "rule": v["rule"], "disc": v["disc"],
                                              "case": bycase.get(v.get("case")), "transport_case": True},
                       detail=f"case={v.get('case')} n={v.get('n', 1)}")
    return {"cases": len(out), "reader_really_dropped_mid_message": dropped, "tlc_gen": gr}

def check(prop, tier):
    t0 = time.time()
    thorough = tier == "thorough"
    verdict = Verdict(prop)
    wd = workdir(f"{prop}-{tier}")
    build_harness(["sess", "framing"] if prop == "C18" else ["sess"])
    tlc_runs = design_checks(prop, tier)
    dev_reproduced_in_model = None
    if prop == "C18":
        runs, dev_reproduced_in_model = deviation_check(verdict)
        tlc_runs += runs
    gen_runs, walksets = generate_walks(prop, tier, wd)
    tlc_runs += gen_runs
    # --- replay TLC walks on the real code
    trace = os.path.join(wd, "all.trace")
    open(trace, "w").close()
    allcases = {}
    for cases, summ in walksets:
        part = os.path.join(wd, os.path.basename(cases) + ".trace")
        run_harness("sess", ["replay", cases], part)
        os.system(f"cat {part} >> {trace}")
        allcases.update(load_cases(cases))
    # --- model-independent drivers
    s = seed()
    rnd_cases = os.path.join(wd, "random.cases")
    nrand = (20000 if thorough else 600)
    drops = 0 if prop == "C05" else 2
    part = os.path.join(wd, "random.trace")
    run_harness("sess", ["random", s, nrand // 2, 40, drops, 0, rnd_cases], part)
    os.system(f"cat {part} >> {trace}")
    allcases.update(load_cases(rnd_cases))
    rnd_cases2 = os.path.join(wd, "random-faults.cases")
    run_harness("sess", ["random", s + 7919, nrand // 2, 40, drops, 1, rnd_cases2], part)
    os.system(f"cat {part} >> {trace}")
    allcases.update(load_cases(rnd_cases2))
    # long sessions: up to 70 requests on one session, dozens of abandoned reply futures (C18) / dozens of replies
    # in odd orders (C05) over its lifetime; more than the model has room for, judged by the contract alone
    nlong = 60 if thorough else 8
    long_cases = os.path.join(wd, "long.cases")
    run_harness("sess", ["random", s + 104729, nlong, 900, 0 if prop == "C05" else 60, 0, long_cases, 70], part)
    os.system(f"cat {part} >> {trace}")
    allcases.update(load_cases(long_cases))
    # everything sent before anything is collected: 33 / 40 / 70 calls of rpc() with no reply future polled in between,
    # the server answers them all (three orders); no call of rpc() may wait for the caller to collect earlier replies
    burst = os.path.join(wd, "burst.cases")
    with open(burst, "w") as f:
        for n in (33, 40, 70):
            for order in ("fifo", "lifo", "odd-even"):
                cmds = [{"c": "nomodel"}] + [{"c": "rpc", "good": True}] * n + [{"c": "answerall", "order": order}, {"c": "pollc"}, {"c": "pollc"},
                                                                         {"c": "stuckcheck"}, {"c": "finish"}]
                f.write(json.dumps({"case": f"burst{n}-{order}", "cmds": cmds}) + "\n")
    run_harness("sess", ["replay", burst], part)
    os.system(f"cat {part} >> {trace}")
    allcases.update(load_cases(burst))
    nstress = 0
    if prop == "C05":
        nstress = 5000 if thorough else 400
        run_harness("sess", ["stress", s, nstress], part)
        os.system(f"cat {part} >> {trace}")
    # --- TLC validates every recorded execution against Session.tla
    stats, viols = validate_trace("SessionTrace", trace, prop, f"{prop}-{tier}", TRACE_CFG, nchunks=12 if thorough else 8)
    for v in viols:
        case = v.get("case", "?")
        payload = {"property": prop, "rule": v["rule"], "disc": v["disc"], "occurrences": v.get("n", 1),
                   "case": allcases.get(case, {"case": case}),
                   "events": trace_slice(trace, case) if case != "?" else [],
                   "how_to_replay": "./bin/check %s --replay <this file>" % prop}
        verdict.report(v["rule"], v["disc"], payload, detail=f"case={case} seq={v.get('seq')} n={v.get('n', 1)}")
    if stats.get("drifted", 0):
        log(f"MODEL-DRIFT: {stats['drifted']} of {stats['cases']} cases left the implementation-shaped model "
            f"(first: {stats.get('firstDrift')}); contract verdicts are unaffected")
    walks_total = sum(s["walks"] for _, s in walksets)
    samples = []
    for name in list(allcases)[:2] + list(allcases)[-1:]:
        samples.append({"case": name, "cmds": allcases[name]["cmds"][:14]})
    cov = {
        "states": sum(r["distinct"] for r in tlc_runs),
        "transitions": sum(r["generated"] for r in tlc_runs),
        "traces_validated_against_impl": stats.get("cases", 0),
        "samples": samples,
        "tlc_runs": [{"name": r["name"], "distinct": r["distinct"], "generated": r["generated"], "depth": r["depth"],
                      "wall_s": r["wall_s"]} for r in tlc_runs],
        "walks_from_tlc_edge_cover": walks_total,
        "model_edges": [s for _, s in walksets],
        "random_cases": nrand, "stress_cases_multithreaded": nstress, "long_session_cases(70 requests, up to 60 drops)": nlong,
        "trace_lines": stats.get("lines"), "polls_of_real_futures": stats.get("polls"),
        "results_checked": stats.get("results"),
        "cases_drifted_from_model": stats.get("drifted", 0), "first_drift": stats.get("firstDrift", ""),
        "cases_without_model(stress)": stats.get("nomodel", 0),
        "cases_where_model_says_reply_lost": stats.get("lostCases", 0),
        "exhaustive": bool(thorough),
        "known_findings_reproduced": verdict.known_hits,
        "rule": "cases = edge-cover walks of MCSessionGen (poll grain) + seeded random command scripts + multi-threaded stress; "
                "every case is executed on a real netconf::Session over the in-memory transport and its event log is validated by TLC "
                "(SessionTrace.tla: contract monitor + step-by-step conformance with the model)",
    }
    if dev_reproduced_in_model is not None:
        cov["named_deviation_reproduced_in_model"] = dev_reproduced_in_model
    if prop == "C18":
        td = transport_drop_cases(verdict, wd, tier)
        cov["real_transport_drop_cases"] = {"cases": td["cases"],
                                            "reader_really_dropped_mid_message": td["reader_really_dropped_mid_message"]}
    write_evidence(prop, tier, "model_checking", cov,
                   ["tokio::sync::Mutex hands a released lock to waiters in FIFO order (modelled so for the receive lock)",
                    "the request map is behind a non-async mutex that is never held across an await (SyncMap = TRUE)",
                    "in-memory transport is cancel-safe and delivers whole messages",
                    "a reply is a 'stranger' only if it is taken off the transport while its id was never sent and no rpc() call is in progress",
                    "dropping the rpc() future itself (caller cancellation) is treated as a fault for progress, never for safety"],
                   time.time() - t0, len(verdict.violations))
    return verdict.exit_code()

def replay(prop, path):
    """Re-execute the case stored in a replay file and validate it again."""
    payload = json.load(open(path))
    if payload.get("transport_case"):
        import check_framing
        return check_framing.replay(prop, path)
    build_harness(["sess"])
    wd = workdir(f"{prop}-replay")
    cases = os.path.join(wd, "replay.cases")
    with open(cases, "w") as f:
        f.write(json.dumps(payload["case"]) + "\n")
    trace = os.path.join(wd, "replay.trace")
    run_harness("sess", ["replay", cases], trace)
    stats, viols = validate_trace("SessionTrace", trace, prop, f"{prop}-replay", TRACE_CFG, nchunks=1)
    print(open(trace).read())
    verdict = Verdict(prop)
    for v in viols:
        verdict.report(v["rule"], v["disc"], payload, detail=f"n={v.get('n', 1)}")
    return verdict.exit_code()
