#!/usr/bin/env python3
"""C20 - credentials never appear in log output (Logs.tla; thin use of the specification, see DESIGN.md)."""
import json, os, time
from vlib import *

CFG = "SPECIFICATION TSpec\nINVARIANT Report\nPOSTCONDITION Accepted\nCHECK_DEADLOCK FALSE\n"

def check(prop, tier):
    t0 = time.time()
    verdict = Verdict(prop)
    wd = workdir(f"{prop}-{tier}")
    build_harness(["logs"]); build_repo_bins()
    g = run_tlc("Logs", CFG, f"{prop}-gen", workers=1, env_extra={"MODE": "gen", "TRACE": "/dev/null"})
    cases = None
    for line in open(g["out"], errors="replace"):
        if line.startswith('<<"GEN", '):
            cases = json.loads(json.loads(line.strip()[len('<<"GEN", '):-2]))["cases"]
    if not cases:
        raise ToolError("Logs.tla printed no cases")
    reps = 3 if tier == "thorough" else 1
    cases = cases * reps
    cpath = os.path.join(wd, "cases.json")
    json.dump({"cases": cases}, open(cpath, "w"))
    trace = os.path.join(wd, "logs.trace")
    run_harness("logs", [cpath, os.path.join(REPO_BIN, "bgpfu-junos-agent")], trace, timeout=1500)
    stats, viols = validate_trace("Logs", trace, prop, f"{prop}-{tier}", CFG, nchunks=1, independent=True, extra_env={"MODE": "check"})
    for v in viols:
        payload = {"property": prop, "rule": v["rule"], "disc": v["disc"], "info": v.get("info"), "case": cases[v["case"]] if isinstance(v.get("case"), int) else None}
        verdict.report(v["rule"], v["disc"], payload, detail=str(v.get("info"))[:200])
    evs = [json.loads(l) for l in open(trace)]
    cov = {"evaluations": len(evs), "distinct_nontrivial": sum(1 for e in evs if e["own_lines"] > 0),
           "samples": [{"case": evs[0]["c"], "outcome": evs[0]["outcome"], "own_log_lines": evs[0]["own_lines"]},
                       {"case": evs[-1]["c"], "outcome": evs[-1]["outcome"], "log_lines": evs[-1]["lines"]}],
           "log_lines_searched": sum(e["lines"] for e in evs), "lines_from_this_repository": sum(e["own_lines"] for e in evs),
           "outcomes": sorted(set(f"{e['c']['transport']}/{e['c']['stage']}: {e['outcome']}" for e in evs)),
           "rule": "transport in {ssh, tls, agent binary} x stage reached (connection refused, handshake / authentication failure, failure after "
                   "the handshake, established) x class of secret (plain / quotes+blanks / non-ASCII / long password; TLS client key; combined "
                   "certificate+key file); log output captured at TRACE with span events (a superset of every lower level and filter) and the "
                   "agent's stderr with -vvvv and RUST_LOG=trace; searched for the secret in clear, Debug-escaped, hex, base64, byte-list form; "
                   "non-trivial = the attempt produced log lines from this repository's crates",
           "known_findings_reproduced": verdict.known_hits}
    write_evidence(prop, tier, "exploration", cov,
                   ["TRACE output is a superset of what any level or filter directive lets through, so levels are not enumerated separately",
                    "only lines of this repository's crates are considered for the library; the agent's whole stderr is searched",
                    "substring search is done by the harness, not by TLC"],
                   time.time() - t0, len(verdict.violations))
    return verdict.exit_code()

def replay(prop, path):
    return check(prop, "quick")
