#!/usr/bin/env python3
"""False-alarm test: applies each behaviour-preserving change under /verif/benign to /repo's working tree (never
committed), runs the quick checks of the properties its meta.json lists (those the change could disturb), requires
exit 0 from every one, restores the tree.  usage: benign_matrix.py [<id> ...]   (writes benign/MATRIX.json, MATRIX.md)
The repository must be clean before and is clean after."""
import json, os, subprocess, sys, time, re
ROOT = os.path.join(os.path.dirname(os.path.abspath(__file__)), "..")
BEN = os.path.join(ROOT, "benign")
REPO = os.environ.get("VERIF_REPO", "/repo")

def sh(cmd, **kw):
    return subprocess.run(cmd, shell=True, text=True, stdout=subprocess.PIPE, stderr=subprocess.STDOUT, **kw)

def clean():
    sh(f"git -C {REPO} reset -q --hard HEAD && git -C {REPO} clean -qfd")

def main():
    if sh(f"git -C {REPO} status --porcelain").stdout.strip():
        print("repository not clean"); return 2
    ids = [a for a in sys.argv[1:] if not a.startswith("--")] or sorted(d for d in os.listdir(BEN) if os.path.isdir(os.path.join(BEN, d)))
    only = [a[2:] for a in sys.argv[1:] if a.startswith("--C")]
    only = ["C" + o for o in only]
    mpath = os.path.join(BEN, "MATRIX.json")
    matrix = json.load(open(mpath)) if os.path.exists(mpath) else {}
    head = sh(f"git -C {REPO} rev-parse --short HEAD").stdout.strip()
    for i in ids:
        d = os.path.join(BEN, i)
        meta = json.load(open(os.path.join(d, "meta.json")))
        patch = next((os.path.join(d, p) for p in ("patch.rebased.diff", "patch.diff") if os.path.exists(os.path.join(d, p))), None)
        applied = sh(f"git -C {REPO} apply --check {patch}").returncode == 0 and sh(f"git -C {REPO} apply {patch}").returncode == 0
        row = matrix.get(i, {}) if only else {}
        row.update({"patch": os.path.basename(patch), "repo_head": head, "applies": applied})
        row.setdefault("checks", {})
        if applied:
            for p in (only or meta["run_checks"]):
                t0 = time.time()
                r = sh(f"{ROOT}/bin/check {p} quick", timeout=3600)
                rules = sorted(set(re.findall(r"rule=(\S+)", r.stdout)))
                tool = re.findall(r"TOOL-ERROR[^\n]*", r.stdout)
                row["checks"][p] = {"exit": r.returncode, "rules": rules[:6], "tool_error": tool[:1], "wall_s": round(time.time() - t0)}
            row["alarms"] = [p for p, c in row["checks"].items() if c["exit"] != 0]
        clean()
        matrix[i] = row
        print(i, "applies" if applied else "DOES-NOT-APPLY", "alarms:", row.get("alarms"), {p: c["exit"] for p, c in row["checks"].items()}, flush=True)
        json.dump(matrix, open(mpath, "w"), indent=1)
    with open(os.path.join(BEN, "MATRIX.md"), "w") as f:
        f.write("| change | what | applies to HEAD | quick checks run (exit) | false alarms |\n|---|---|---|---|---|\n")
        for i in sorted(matrix):
            r = matrix[i]; meta = json.load(open(os.path.join(BEN, i, "meta.json")))
            f.write(f"| {i} | {meta['title'][:160]} | {r['applies']} | " + ", ".join(f"{p}:{c['exit']}" for p, c in r["checks"].items())
                    + f" | {', '.join(r.get('alarms', [])) or 'none'} |\n")
    return 0
sys.exit(main())
