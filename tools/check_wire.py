#!/usr/bin/env python3
"""C08 (reply classification), C09 (capability gate), C12 (hello / negotiation) - Wire.tla."""
import json, os, time, subprocess, random, itertools
from vlib import *

TRACE_CFG = """SPECIFICATION TSpec
INVARIANT Report
POSTCONDITION Accepted
CHECK_DEADLOCK FALSE
"""

def tlc_generate(what, k1, k2, name):
    """TLC enumerates the bounded input space (WireGen.tla) and prints it as JSON."""
    r = run_tlc("WireGen", f'SPECIFICATION Spec\nCONSTANTS What = "{what}" K1 = {k1} K2 = {k2}\n', name, workers=1,
                java_opts="-Xss512m")
    for line in open(r["out"], errors="replace"):
        if line.startswith('<<"GEN", '):
            body = line.strip()[len('<<"GEN", '):-2]
            return json.loads(json.loads(body)), r
    raise ToolError(f"WireGen printed no cases ({r['out']})")

LEVEL = {"C10": "exploration", "C13": "exploration", "C14": "exploration"}

def finish(prop, tier, t0, verdict, stats, viols, gen_run, cov_extra, assumptions, cases_lookup, trace):
    for v in viols:
        payload = {"property": prop, "rule": v["rule"], "disc": v["disc"], "first_case": v.get("case"),
                   "info": v.get("info", ""), "occurrences": v.get("n", 1),
                   "case": cases_lookup(v.get("case")), "how_to_replay": f"./bin/check {prop} --replay <this file>"}
        verdict.report(v["rule"], v["disc"], payload, detail=f"{v.get('info', '')} n={v.get('n', 1)}")
    cov = {"states": stats["lines"] + 1, "transitions": stats["lines"],
           "traces_validated_against_impl": stats["lines"],
           "evaluations": stats["lines"], "distinct_nontrivial": stats.get("nontrivial", 0),
           "tlc_generator": {"module": "WireGen", "wall_s": gen_run["wall_s"]},
           "known_findings_reproduced": verdict.known_hits}
    cov.update(cov_extra)
    write_evidence(prop, tier, LEVEL.get(prop, "model_checking"), cov, assumptions, time.time() - t0, len(verdict.violations))
    return verdict.exit_code()

# ------------------------------------------------------------------------------------------
def check_c08(tier, only_cases=None):
    t0 = time.time(); prop = "C08"
    verdict = Verdict(prop)
    wd = workdir(f"{prop}-{tier}")
    build_harness(["wire"])
    k1, k2 = (4, 4) if tier == "thorough" else (3, 3)
    gen, gr = tlc_generate("c08", k1, k2, f"{prop}-gen")
    cases = gen["cases"] if only_cases is None else only_cases
    cpath = os.path.join(wd, "cases.json")
    json.dump({"cases": cases}, open(cpath, "w"))
    trace = os.path.join(wd, "c08.trace")
    run_harness("wire", ["c08", cpath] + (["quick"] if tier == "quick" else []), trace)
    stats, viols = validate_trace("WireTrace", trace, prop, f"{prop}-{tier}", TRACE_CFG, nchunks=8, independent=True)
    samples = [cases[i] for i in (0, len(cases) // 3, len(cases) - 1)]
    return finish(prop, tier, t0, verdict, stats, viols, gr,
                  {"samples": samples, "reply_documents": len(cases), "exhaustive": True,
                   "rule": f"all token sequences of the reply grammar: top level <= {k1} tokens over ok,data,E,W,cmt,x,res for the "
                           f"empty/data/bare reply types; for load-configuration all inner sequences <= {k2} over ok,E,W,cmt,count(0..2) "
                           "inside one results element with <= 2 surrounding top-level tokens; each rendered as XML and injected as the reply "
                           "to real operations of that reply type (quick: two operations per document, thorough: every operation); "
                           "non-trivial = the library reported success or server errors (not a parse error)"},
                  ["rpc-errors are identified by their error-message text (m<k>) in the Debug output of the reported errors",
                   "an <rpc-error> of severity warning may accompany success (Junos does that); only severity error must not"],
                  lambda k: cases[k] if isinstance(k, int) and k < len(cases) else None, trace)

# ------------------------------------------------------------------------------------------
CAPS = ["wr", "cand", "cc10", "cc11", "roe", "val10", "val11", "startup", "xpath", "junos", "url-file", "url-http", "url-ftp"]

def capsets(tier):
    if tier == "thorough":
        return [list(c) for n in range(len(CAPS) + 1) for c in itertools.combinations(CAPS, n)]
    rng = random.Random(seed())
    sets = [[], list(CAPS)] + [[c] for c in CAPS] + [[d for d in CAPS if d != c] for c in CAPS]
    sets += [rng.sample(CAPS, rng.randint(2, len(CAPS) - 2)) for _ in range(60)]
    return sets

def check_c09(tier, only=None):
    t0 = time.time(); prop = "C09"
    verdict = Verdict(prop)
    wd = workdir(f"{prop}-{tier}")
    build_harness(["wire"])
    gen, gr = tlc_generate("c09", 0, 0, f"{prop}-gen")
    contents = gen["contents"]; incomplete = gen.get("incomplete", [])
    sets = capsets(tier) if only is None else only["capsets"]
    if only is not None:
        contents = only["contents"]; incomplete = only.get("incomplete", [])
    cpath = os.path.join(wd, "contents.json"); spath = os.path.join(wd, "capsets.json")
    json.dump({"contents": contents, "incomplete": incomplete}, open(cpath, "w")); json.dump(sets, open(spath, "w"))
    trace = os.path.join(wd, "c09.trace")
    run_harness("wire", ["c09", cpath, spath], trace)
    stats, viols = validate_trace("WireTrace", trace, prop, f"{prop}-{tier}", TRACE_CFG, nchunks=12 if tier == "thorough" else 8, independent=True)
    def lookup(k):
        if not isinstance(k, int):
            return None
        j = k % 1000
        if j < len(contents):
            return {"capsets": [sets[k // 1000]], "contents": [contents[j]]}
        return {"capsets": [sets[k // 1000]], "contents": [], "incomplete": [incomplete[j - len(contents)]]}
    return finish(prop, tier, t0, verdict, stats, viols, gr,
                  {"samples": [{"caps": sets[len(sets) // 2], "content": contents[7]}, {"caps": sets[1], "content": contents[-1]}],
                   "capability_sets": len(sets), "request_contents": len(contents), "requests_built_without_a_mandatory_parameter": len(incomplete), "exhaustive": tier == "thorough",
                   "rule": "capability sets (thorough: all 2^13 subsets of the 10 standard capabilities + 3 url schemes; quick: empty, all, "
                           "each single, all-but-one, 60 seeded random) x every request content of Wire!ContentCases, each issued through the "
                           "public builders on a real session whose server hello advertised exactly that set; TLC evaluates "
                           "sent <=> Wire!Permitted(caps, content); non-trivial = the request reached the wire"},
                  ["Wire!Permitted is my transcription of RFC 6241 section 8 (trusted base)",
                   "a builder call is part of the content only if it sets a parameter (e.g. test_option(TestThenSet) counts as using test-option)"],
                  lookup, trace)

# ------------------------------------------------------------------------------------------
def check_c12(tier, only_cases=None):
    t0 = time.time(); prop = "C12"
    verdict = Verdict(prop)
    wd = workdir(f"{prop}-{tier}")
    build_harness(["wire"])
    gen, gr = tlc_generate("c12", 0, 0, f"{prop}-gen")
    cases = gen["cases"] if only_cases is None else only_cases
    cpath = os.path.join(wd, "cases.json")
    json.dump({"cases": cases}, open(cpath, "w"))
    trace = os.path.join(wd, "c12.trace")
    run_harness("wire", ["c12", cpath], trace)
    stats, viols = validate_trace("WireTrace", trace, prop, f"{prop}-{tier}", TRACE_CFG, nchunks=2, independent=True)
    agent = {}
    if only_cases is None:
        # "usable with a conforming server", over the real transports: the agent against a router that implements NETCONF
        # 1.1 too and frames as RFC 6242 requires for whatever the two hellos negotiate
        import check_agent
        agent = check_agent.side_run(prop, tier, verdict, any_rule=True)
    return finish(prop, tier, t0, verdict, stats, viols, gr,
                  {"agent_against_a_router_with_netconf_1.1": agent, "samples": [cases[0], cases[len(cases) // 2], cases[-1]], "hello_cases": len(cases), "exhaustive": True,
                   "rule": "server hellos: every subset of {base:1.0, base:1.1} x 9 session-id shapes x default/prefixed namespace x hello "
                           "before/after the client's own, plus malformed hellos; each fed to a real Session establishment over the "
                           "in-memory transport; TLC checks established <=> (well-formed, valid id, common base version with what the client "
                           "really advertised), highest common version, reported id/capabilities, and the framing of the first request "
                           "against RFC 6242 4.1; non-trivial = session established"},
                  ["in-memory transport delivers whole messages, so only the client's outgoing framing is observable here; "
                   "over the real transports (TLS, local cli child) the agent runs against a fake router that advertises :base:1.0 and :base:1.1 and "
                   "uses chunked framing (chunks of 1, 7 and the remaining bytes, a line of ## inside the data) exactly when the client's hello "
                   "advertised :base:1.1 as well"],
                  lambda k: cases[k] if isinstance(k, int) and k < len(cases) else None, trace)

# ------------------------------------------------------------------------------------------
def check_c13(tier, only_cases=None):
    t0 = time.time(); prop = "C13"
    verdict = Verdict(prop)
    wd = workdir(f"{prop}-{tier}")
    build_harness(["wire"])
    gen, gr = tlc_generate("c13", 0, 0, f"{prop}-gen")
    cases = gen["cases"] if only_cases is None else only_cases
    cpath = os.path.join(wd, "cases.json")
    json.dump({"cases": cases}, open(cpath, "w"))
    trace = os.path.join(wd, "c13.trace")
    run_harness("wire", ["c13", cpath], trace)
    stats, viols = validate_trace("WireTrace", trace, prop, f"{prop}-{tier}", TRACE_CFG, nchunks=4, independent=True)
    ntempl = len(set(json.loads(l)["tmpl"] for l in open(trace)))
    agent = {}
    if only_cases is None:
        import check_agent
        agent = check_agent.side_run(prop, tier, verdict)
    return finish(prop, tier, t0, verdict, stats, viols, gr,
                  {"configuration_data": agent, "samples": [json.loads(open(trace).readline())["doc"], cases[len(cases) // 2]], "rewrite_subsets": len(cases),
                   "message_templates": ntempl, "exhaustive": True,
                   "rule": "message templates (server hello; ok / rpc-error / data / empty data / bare replies; load-configuration results "
                           "ok / errors / warning+ok) x every subset of 7 information-preserving rewrites (prefix vs default namespace, "
                           "inter-element white space, padding of token text, comments, attribute order and quoting, XML declaration, "
                           "empty-element form), each parsed by the real session / reply readers; the outcome (value or error class) must "
                           "equal that of the plain serialisation; non-trivial = at least one rewrite applied"},
                  ["the data of <get> is a raw fragment by design and is compared by its XML information content",
                   "configuration data: the unmodified agent binary runs twice from the same router state, once against the fake router's "
                   "plain serialisation and once with every positive reply (open, get-config running / ephemeral, load results, commit, close) "
                   "re-serialised in the style; AgentTrace.tla (TwinViol) demands the same outcome and the same resulting configuration"],
                  lambda k: cases[k] if isinstance(k, int) and k < len(cases) else None, trace)

def check_c10(tier, only_cases=None):
    t0 = time.time(); prop = "C10"
    verdict = Verdict(prop)
    wd = workdir(f"{prop}-{tier}")
    build_harness(["wire"])
    gen, gr = tlc_generate("c10", 3 if tier == "thorough" else 2, 0, f"{prop}-gen")
    cases = gen["cases"] if only_cases is None else only_cases
    cpath = os.path.join(wd, "cases.json")
    json.dump({"cases": cases}, open(cpath, "w"))
    trace = os.path.join(wd, "c10.trace")
    run_harness("wire", ["c10", cpath], trace)
    stats, viols = validate_trace("WireTrace", trace, prop, f"{prop}-{tier}", TRACE_CFG, nchunks=8, independent=True)
    agent = {}
    if "only_cases" not in dir() or only_cases is None:
        # policy names and comments travel from the router's configuration through the agent into its requests
        import check_agent
        agent = check_agent.side_run(prop, tier, verdict, any_rule=True)
    return finish(prop, tier, t0, verdict, stats, viols, gr,
                  {"agent_policy_names": agent, "samples": [cases[0], cases[len(cases) // 2], cases[-1]], "parameter_value_cases": len(cases), "exhaustive": True,
                   "rule": "15 text-valued parameters (tokens, log message, instance name, XPath in get / get-config, URLs, text / JSON / set "
                           "configuration payloads, XML fragments as filter / edit-config / copy-config content) x every string of up to 2 "
                           "(thorough 3) character classes out of plain, <, >, &, quote, apostrophe, the delimiter, non-ASCII, spaces; the "
                           "captured bytes are parsed by the harness' own strict XML 1.0 parser; TLC checks one delimiter at the end, "
                           "well-formedness, recovered = given; non-trivial = request reached the wire with a non-empty value"},
                  ["the harness' XML parser (harness/src/xmlgen.rs) is the trusted base for well-formedness and for reading values back",
                   "namespace well-formedness is not demanded (the client's requests carry no xmlns)",
                   "fragments are built by the caller already escaped; a fragment containing the delimiter cannot be framed at all and is not generated as markup"],
                  lambda k: cases[k] if isinstance(k, int) and k < len(cases) else None, trace)

def check_c14(tier, only_cases=None):
    t0 = time.time(); prop = "C14"
    verdict = Verdict(prop)
    wd = workdir(f"{prop}-{tier}")
    build_harness(["wire"])
    gen, gr = tlc_generate("c14", 200 if tier == "thorough" else 20, 0, f"{prop}-gen")
    cases = gen["cases"] if only_cases is None else only_cases
    for k, c in enumerate(cases):
        if c["op"] == "random":
            c["seed"] = c["seed"] * 7919 + seed()
    cpath = os.path.join(wd, "cases.json")
    json.dump({"cases": cases}, open(cpath, "w"))
    trace = os.path.join(wd, "c14.trace")
    # the code under test may take the whole process down (stack overflow, abort): that is a result, not a tool
    # error - the case without an output line is recorded as aborted and the run goes on behind it
    done, aborted, notrun = 0, 0, 0
    with open(trace, "w") as tf:
        while done < len(cases):
            part = os.path.join(wd, f"c14.part{aborted}")
            with open(part, "w") as o:
                p = subprocess.run([os.path.join(BIN, "wire"), "c14", cpath, str(done)], stdout=o, stderr=subprocess.PIPE, text=True, timeout=3000)
            lines = [l for l in open(part) if l.strip()]
            tf.writelines(lines); done += len(lines)
            if p.returncode == 0:
                break
            if p.returncode > 0 and p.returncode != 97:
                raise ToolError(f"harness wire c14 failed rc={p.returncode}: {p.stderr[-1500:]}")
            if done < len(cases):
                if p.returncode == 97:
                    # the harness's watchdog: the thread that polls the session never came back from this case
                    tf.write(json.dumps({"ev": "c14", "case": done, "c": cases[done], "gid": -1, "glen": 0, "hang": True,
                                         "abort": p.stderr.strip()[-200:]}) + "\n")
                else:
                    tf.write(json.dumps({"ev": "c14", "case": done, "c": cases[done], "gid": -1, "glen": 0, "panic": True,
                                         "abort": f"the process was killed by signal {-p.returncode}: " + p.stderr.strip()[-160:]}) + "\n")
                done += 1; aborted += 1
            if aborted >= 8:
                # every one of these is a violation already; the cases behind them are not run
                notrun = len(cases) - done
                break
    stats, viols = validate_trace("WireTrace", trace, prop, f"{prop}-{tier}", TRACE_CFG, nchunks=8, independent=True)
    outcomes = {}
    for l in open(trace):
        e = json.loads(l)
        key = e.get("hello") or ",".join(r.split(":")[0] for r in e.get("res", ["panic"]))
        outcomes[key] = outcomes.get(key, 0) + 1
    agent = {}
    if only_cases is None:
        import check_agent
        agent = check_agent.side_run(prop, tier, verdict)
    return finish(prop, tier, t0, verdict, stats, viols, gr,
                  {"agent_readers": agent, "samples": [cases[0], cases[len(cases) // 2], cases[-1]], "mutation_cases": len(cases), "cases_not_run_after_8_that_killed_or_blocked_the_process": notrun, "outcome_histogram": outcomes,
                   "exhaustive": False,
                   "rule": "mutation scripts enumerated by TLC over 7 message templates: truncation / byte flips (3 masks) / invalid UTF-8 at 9 "
                           "positions, splices of every slice pair, duplicated element, 40-digit integers, wrong namespace, 3000-deep nesting, "
                           "2 MB comment, empty message, seeded random byte strings; each fed either as the server hello or as the reply to "
                           "request 2 of 3 outstanding requests on a real session, followed by valid replies to 1 and 3; non-trivial = mutated"},
                  ["bounded exploration: totality over all byte strings is not proved",
                   "a garbage reply is attributed by the message-id a lenient reader finds in it; if it names another outstanding request only "
                   "'no panic, no hang' is demanded",
                   "agent readers: the unmodified agent binary against the fake router with one positive reply (get-config running / "
                   "ephemeral, load results; thorough: every request kind) damaged by each of 30 mutations; the run must end within 15 s "
                   "without a panic message"],
                  lambda k: cases[k] if isinstance(k, int) and k < len(cases) else None, trace)

def check(prop, tier):
    return {"C14": check_c14, "C10": check_c10, "C08": check_c08, "C09": check_c09, "C12": check_c12, "C13": check_c13}[prop](tier)

def replay(prop, path):
    payload = json.load(open(path))
    if "scenario" in payload:
        import check_agent
        return check_agent.replay(prop, path)
    c = payload.get("case")
    if prop == "C09":
        return check_c09("quick", only=c)
    return {"C14": check_c14, "C10": check_c10, "C08": check_c08, "C12": check_c12, "C13": check_c13}[prop]("quick", only_cases=[c] if prop != "C13" else [[], c])
