#!/usr/bin/env python3
"""Regenerates /verif/MANIFEST.json from the table below (kept next to the checks)."""
import json, os, subprocess
VERIF = os.path.dirname(os.path.dirname(os.path.abspath(__file__)))
props = [json.loads(l) for l in open(os.path.join(VERIF, "properties.jsonl"))]

CLAIMED = {
 "C05": dict(engine="session", cat="model_checking",
   tech="TLC model checking of Session.tla (await-point and poll grain, liveness under fairness); TLC edge-cover walks replayed on the real Session; seeded random and multi-threaded runs; every recorded run validated by TLC (SessionTrace.tla)",
   text="Exhaustive for the bounded model (3 requests, all reply orders, all interleavings at await-point grain, peer faults). The real code is bound to it by replaying model transitions one poll() at a time and by TLC validating each recorded run step by step against model and contract.",
   note="tokio Mutex FIFO hand-off; in-memory transport; ids <= 3 in the model, <= 7 in runs; multi-threaded verdicts use a 10 s watchdog"),
 "C18": dict(engine="session", cat="model_checking",
   tech="TLC model checking of Session.tla with Drop actions; edge-cover walks including a Drop at every suspension point replayed on the real futures; validated by TLC (SessionTrace.tla)",
   text="Every suspension point of every future in every reachable lock/transport configuration of the bounded model gets a Drop edge; each is replayed on the real futures (dropping the boxed future where it really returned Pending) and TLC checks that all survivors complete with their own reply and a fresh rpc() works.",
   note="as C05; the open known finding (reply lost when the reader is dropped while holding another request's reply) is identified through the model's `lost` ghost"),
 "C08": dict(engine="wire", cat="model_checking",
   tech="TLC enumerates the reply token grammar (WireGen.tla); each document is injected as the reply to real operations; TLC evaluates Wire!Verdict on every outcome (WireTrace.tla)",
   text="Exhaustive over the bounded reply grammar (all token sequences up to length 3/4 at every nesting position, all four reply types); the oracle is the TLA+ relation, computed from the grammar, not a snapshot.",
   note="rpc-errors identified by message text; warnings may accompany success"),
 "C09": dict(engine="wire", cat="model_checking",
   tech="TLC enumerates request contents (Wire!ContentCases) and evaluates Wire!Permitted (RFC 6241 section 8 table) against what a real session put on the wire for every capability set",
   text="Both directions (no leak, no over-restriction) for every capability subset (thorough: all 8192) x 117 request contents through the public builders on real sessions.",
   note="Wire!Permitted is a transcription of RFC 6241 section 8 (trusted base)"),
 "C10": dict(engine="wire", cat="exploration",
   tech="TLC enumerates (text-valued parameter, string of character classes) cases (WireGen C10Cases); each is sent through a real session; the captured bytes are parsed by the harness' strict XML parser; Wire/WireTrace C10Viol checks one trailing delimiter, well-formedness, recovered = given",
   text="16 parameters x all class strings up to length 2 (thorough 3) incl. metacharacters, quotes, the delimiter, non-ASCII; plus a request following a request whose payload failed to serialise. The specification contributes the enumeration and the acceptance relation; byte fidelity is decided by the harness parser.",
   note="harness XML parser is the trusted base; namespace well-formedness not demanded"),
 "C13": dict(engine="wire", cat="exploration",
   tech="TLC enumerates every subset of 7 information-preserving rewrites (WireGen C13Cases); 9 message templates are rendered per subset and parsed by the real session / reply readers; WireTrace C13Viol requires the outcome digest to equal that of the plain serialisation",
   text="1152 serialisations; a failing composition is attributed to the single rewrite that fails on its own. Configuration-data readers of the agent are exercised through C16's statement shapes (attribute order, duplicated xmlns) rather than here.",
   note="<get> data is compared by XML information content; templates are mine, not a grammar-complete set"),
 "C12": dict(engine="wire", cat="model_checking",
   tech="TLC enumerates the server-hello matrix; real Session establishment per case; TLC checks establishment, negotiated version, reported id/capabilities and outgoing framing (Wire.tla C12 relations)",
   text="Exhaustive over base-version subsets x session-id shapes x namespace style x exchange order x malformed hellos.",
   note="only the client's outgoing framing is observable over the in-memory transport"),
 "C06": dict(engine="framing", cat="model_checking",
   tech="TLC model checking of both receiver shapes (MCFraming.tla: all chunkings, all streams over the body set); TLC-enumerated cut/close cases (FramingGen.tla) executed on the real TLS, child-process and SSH transports; FramingTrace.tla computes Messages(stream) and judges every result",
   text="Design: exhaustive over chunkings for 1-2 message streams incl. bodies that are proper prefixes of the delimiter. Code: the same case space (cut sets <= 2 at every symbol position, both messages in one unit, hello cuts) run against the three real transports with a peer that controls segmentation.",
   note="segmentation imposed by 4 ms pauses between peer writes; 2.5 s watchdog per operation, per-case process killed after 12 s"),
 "C07": dict(engine="framing", cat="fault_enumeration",
   tech="TLC-enumerated crash points (FramingGen F4/F5: every symbol position of hello and replies x clean / half-close / abrupt) executed on the three real transports; FramingTrace.tla requires an error for every pending and subsequent operation; MCFraming checks EofIsError/NoSpin on the receiver models",
   text="Every position of the session's life at which the peer can go away, three kinds of going away, three transports, 0-2 requests outstanding; a spin that never yields is caught by running each case in its own process with an external watchdog and CPU-time reading.",
   note="watchdogs as in C06; after an abrupt close already received data may be lost (allowed)"),
 "C01": dict(engine="agent", cat="model_checking",
   tech="TLC enumerates policy histories (AgentGen.tla); the unmodified agent binary runs them against a fake Junos + fake IRRd; AgentTrace.tla recomputes the ephemeral configuration with Junos!Load and checks Converged / NoOrphans / ReadBack / Idempotent at every successful run end",
   text="All histories of length 2 (thorough 3) of a policy over 32 target sets + unmanaged, packed onto routers of 1, 2 and 60-120 policies, each followed by a repeat run with unchanged inputs, plus router-side failures of load/commit; the verdict is about the resulting configuration (policy evaluation over a prefix universe), never about the shape of the update.",
   note="Junos.tla (J1-J5) is the trusted oracle; fake router cross-checked against it; expected data = route objects put into the fake IRRd"),
 "C02": dict(engine="agent", cat="model_checking",
   tech="same runs as C01; AgentTrace.tla applies every single load-configuration payload with Junos!Load and checks FailOpen, Accepts within the evaluated set, no foreign paths, configured ephemeral instance",
   text="Every update of every history (family emptied / created / partial overlap / whole policy emptied / same-address ranges) is judged on its own, acknowledged or not.",
   note="as C01"),
 "C03": dict(engine="agent", cat="model_checking",
   tech="TLC enumerates (installed?, failure class) cases (AgentGen C03Cases) + unreachable-IRR modes; agent binary vs fakes; AgentTrace.tla: no update/delete for a still-marked policy whose data could not be obtained, state unchanged, deletes only for installed unmarked policies",
   text="Unknown as-set (D), E and F responses to the as-set query, malformed annotation, IRRd refusing / closing connections; each alone and all side by side with control policies.",
   note="failure kinds are those the property lists; route-set / per-AS route query errors are sunk by design and not judged"),
 "C04": dict(engine="agent", cat="model_checking",
   tech="TLC enumerates (N pipelined loads, fault target, index, fault kind) (AgentGen FaultCases); agent binary vs scripted fake Junos; AgentTrace.tla checks CommitOnlyAfter / NoCommitAfterFailure / SuccessOnly on the request log and exit status",
   text="171 fault scenarios: rpc-error, malformed, wrong message-id, empty reply, close before/after reply, failing reply released only after later loads were sent; at every request kind; N = 0..3.",
   note="faults addressed by request kind, not position"),
 "C15": dict(engine="agent", cat="model_checking",
   tech="TLC enumerates class vectors of 2-3 policies over {ok, unknown as-set, E, F, PeerAS, AS-path regex, attribute match} (AgentGen C15Cases); agent binary vs fakes; AgentTrace.tla: run succeeds, ok-policies converge, others untouched",
   text="Every mix with at least one evaluable and one unevaluable policy; evaluation order varies per process (hash map).",
   note="as C01"),
 "C16": dict(engine="agent", cat="model_checking",
   tech="TLC enumerates statement shapes and computes Managed(shape) (AgentGen ShapeCases); agent binary vs fakes with nothing installed; AgentTrace.tla: updated set = managed set, expression used = annotation",
   text="768 shapes: active absent/true/false x 8 comment forms x 4 bodies x attribute order x duplicated xmlns:jcmd x unrelated attribute, names with escaped characters; one shape per router next to control statements.",
   note="Managed() in AgentGen.tla is the oracle"),
 "C11": dict(engine="rpsl", cat="model_checking",
   tech="Rpsl.tla (RECURSIVE Eval, member closure as least fixpoint) is the oracle; TLC enumerates database options and expression leaves (RpslGen.tla); the real bgpfu command and the agent binary evaluate (database, expression) cases against the fake IRRd; RpslTrace.tla recomputes Eval for every result",
   text="Databases composed from all options of every dimension (as-set membership with cycles, v4-only / v6-only / empty / duplicate routes, nested route-sets, filter-sets) x expression trees (AND, OR, AND NOT, bounded range operators) up to depth 2 (thorough 3); compared as prefix sets over a universe.",
   note="Rpsl.tla is my transcription of RFC 2622/4012 (trusted); ^+ / ^- not covered; open known finding: complement of a set containing IPv6 prefixes does not terminate (dependency)"),
 "C17": dict(engine="rpsl", cat="model_checking",
   tech="seeded histories of evaluations on one real bgpfu::RpslEvaluator with IRR errors injected per evaluation (fake IRRd under harness control); RpslTrace.tla checks result_i = Rpsl!Eval(expr_i, db, errs_i) for every position",
   text="150 (thorough 1500) histories of 5-6 evaluations; D/E/F errors on as-set, per-AS route, route-set and filter-set queries; partially consumed filter-set responses; the oracle is history-free, so any dependence on earlier evaluations shows.",
   note="error semantics as designed: as-set query error fails the evaluation, other query errors are sunk"),
 "C19": dict(engine="daemon", cat="model_checking",
   tech="TLC model checking of the daemon loop (MCDaemon.tla) for 5 periods and all outcome/signal histories; TLC-enumerated histories (DaemonGen.tla) replayed on the real Loop::start under tokio's paused clock with real signals; DaemonTrace.tla judges every delay, SIGHUP, SIGINT/SIGTERM",
   text="Periods below, at and above the initial back-off; all outcome sequences of length 4 (thorough 6) incl. runs longer than one and several periods; one signal at the edges of any waiting interval.",
   note="job outcome scripted through the cfg-guarded hook; the timer/back-off/signal loop is the real one"),
}
ENGINES = [
 {"name": "rpsl", "path": "tools/check_rpsl.py", "serves_properties": ["C11", "C17"],
  "kind_free_text": "TLC (Rpsl.tla oracle, RpslGen enumerator, RpslTrace judge) + real bgpfu command, library evaluator and agent against the fake IRRd"},
 {"name": "daemon", "path": "tools/check_daemon.py", "serves_properties": ["C19"],
  "kind_free_text": "TLC (Daemon.tla, MCDaemon, DaemonGen, DaemonTrace) + real daemon loop under virtual time with real signals (hook bgpfu_junos_agent::verif)"},
 {"name": "agent", "path": "tools/check_agent.py", "serves_properties": ["C01", "C02", "C03", "C04", "C15", "C16"],
  "kind_free_text": "TLC (AgentGen.tla enumerator, Junos.tla reference model, AgentTrace.tla judge) + unmodified agent binary over TLS against fake Junos and fake IRRd (harness/src/fakes.rs, bin/agentrun)"},
 {"name": "framing", "path": "tools/check_framing.py", "serves_properties": ["C06", "C07"],
  "kind_free_text": "TLC (Framing.tla, MCFraming, FramingGen, FramingTrace) + Rust driver with scripted TLS / child-process / SSH peers"},
 {"name": "session", "path": "tools/check_session.py", "serves_properties": ["C05", "C18"],
  "kind_free_text": "TLC (Session.tla, MCSession, MCSessionGen, SessionTrace) + Rust poll-level executor over an in-memory transport"},
 {"name": "wire", "path": "tools/check_wire.py", "serves_properties": ["C08", "C09", "C10", "C12", "C13"],
  "kind_free_text": "TLC as enumerator (WireGen.tla) and oracle (Wire.tla relations in WireTrace.tla) + Rust driver issuing real RPCs over the in-memory transport"},
]
NA_REASON = {}

checks = []
for pid, c in CLAIMED.items():
    checks.append({"property_id": pid, "quick_cmd": f"./bin/check {pid} quick", "thorough_cmd": f"./bin/check {pid} thorough",
                   "evidence_file": f"/verif/evidence/{pid}.json", "replay_cmd_template": f"./bin/check {pid} --replay {{path}}",
                   "engine": c["engine"], "level_claimed": {"category": c["cat"], "text": c["text"], "design_ref": "DESIGN.md section 4"},
                   "level_note": c["note"], "technique": c["tech"]})
na = [{"property_id": p["id"], "reason": NA_REASON.get(p["id"], "check under construction (DESIGN.md section 11); not claimed yet")}
      for p in props if p["id"] not in CLAIMED]
hooks = subprocess.run(["git", "-C", "/repo", "log", "--format=%h %s"], stdout=subprocess.PIPE, text=True).stdout.splitlines()
hook_commits = [l.split()[0] for l in hooks if "verif hook" in l]
m = {"version": 1, "setup_cmd": "./bin/setup",
     "hooks": {"guard": "bgpfu_verif",
               "enable": "--cfg bgpfu_verif from harness/.cargo/config.toml (the harness has path dependencies on the /repo crates)",
               "baseline_off_cmd": "cd /repo && cargo test --workspace --no-fail-fast --offline",
               "source_commits": hook_commits, "add_only": True},
     "engines": ENGINES, "checks": checks, "not_applicable": na,
     "notes": "Verdicts come from TLC evaluating the TLA+ contract on executions of the real code; see DESIGN.md. "
              "Exit 0 held / 1 VIOLATION / 2 tool error."}
json.dump(m, open(os.path.join(VERIF, "MANIFEST.json"), "w"), indent=1)
print("claimed:", sorted(CLAIMED), "not claimed:", [n["property_id"] for n in na])
