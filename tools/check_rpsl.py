#!/usr/bin/env python3
"""C11 (evaluation = RPSL set semantics) and C17 (independence of connection history) - Rpsl.tla."""
import json, os, time, random, itertools, ipaddress
from vlib import *
import agentgen

TRACE_CFG = """SPECIFICATION TSpec
INVARIANT Report
POSTCONDITION Accepted
CHECK_DEADLOCK FALSE
"""
NAMES = {"S1": "AS-S1", "S2": "AS-S2", "A1": "AS65001", "A2": "AS65002", "A3": "AS65003", "R1": "RS-R1", "R2": "RS-R2", "F1": "FLTR-F1",
         "F2": "FLTR-F2", "F3": "FLTR-F3", "SB": "AS-BIG"}
NBIG = 300            # members of the big as-set: more than any round number a client may batch its look-ups by
NAMES.update({f"B{k}": f"AS{70000 + k}" for k in range(1, NBIG + 1)})
UNIVERSE = [[4, l, i] for l in range(8, 12) for i in range(2 ** (l - 8))] + [[6, l, i] for l in range(32, 35) for i in range(2 ** (l - 32))]

def prefix(atom):
    f, l, i = atom
    if f == 4:
        return str(ipaddress.ip_network((int(ipaddress.IPv4Address("10.0.0.0")) + (i << (32 - l)), l)))
    return str(ipaddress.ip_network((int(ipaddress.IPv6Address("2001:db8::")) + (i << (128 - l)), l)))

def rng_suffix(r):
    if r == [0, 0]:
        return ""
    return f"^{r[0]}" if r[0] == r[1] else f"^{r[0]}-{r[1]}"

def render(e):
    op = e["op"]
    if op in ("asset", "as", "rset"):
        return NAMES[e["name"]] + rng_suffix(e["rng"])
    if op == "fset":
        return NAMES[e["name"]]
    if op == "lit":
        return "{" + ", ".join(prefix(a) for a in e["atoms"]) + "}" + rng_suffix(e["rng"])
    word = {"and": "AND", "or": "OR", "andnot": "AND NOT"}[op]
    return f"({render(e['l'])}) {word} ({render(e['r'])})"

def tlc_blocks():
    r = run_tlc("RpslGen", "SPECIFICATION Spec\n", "rpsl-gen", workers=1, java_opts="-Xss512m")
    for line in open(r["out"], errors="replace"):
        if line.startswith('<<"GEN", '):
            return json.loads(json.loads(line.strip()[len('<<"GEN", '):-2])), r
    raise ToolError("RpslGen printed nothing")

def make_db(b, rng):
    db = {"asSets": {"S1": rng.choice(b["s1"]), "S2": rng.choice(b["s2"])},
          "routes": {a: rng.choice(b["routeChoices"]) for a in ("A1", "A2", "A3")},
          "rtSets": {"R1": rng.choice(b["r1"]), "R2": rng.choice(b["r2"])},
          "fltSets": {"F1": rng.choice(b["flt"]), "F2": rng.choice(b["flt2"]), "F3": rng.choice(b["flt"])}}
    # registries: F3 exists in the server's second registry only; F1 may have a copy there as well, with another
    # expression (the copy of the first registry is the one that counts)
    db["_reg2"] = {"F1": rng.choice(b["flt"])} if rng.random() < 0.75 else {}
    return db

def add_big(db, rng):
    """an as-set with NBIG member ASes; every prefix of the universe is originated by exactly one of them - the first,
    the last, and others spread over the member list - the rest have no routes at all"""
    members = [f"B{k}" for k in range(1, NBIG + 1)]
    rng.shuffle(members)
    db["asSets"]["SB"] = {"sets": [], "items": members}
    spots = [0, NBIG - 1] + rng.sample(range(1, NBIG - 1), len(UNIVERSE) - 2)
    atoms = list(UNIVERSE); rng.shuffle(atoms)
    for pos, atom in zip(spots, atoms):
        db["routes"].setdefault(members[pos], []).append(atom)
    return db

def irr_of(db, pad=0):
    irr = {"as_sets": {}, "routes4": {}, "routes6": {}, "route_sets": {}, "filter_sets": {}, "errors": {}, "empty_as_c": False, "pad": pad}
    for n, o in db["asSets"].items():
        irr["as_sets"][NAMES[n]] = [NAMES[m] for m in o["sets"]] + [NAMES[m] for m in o["items"]]
    for a, atoms in db["routes"].items():
        irr["routes4"][NAMES[a]] = [prefix(x) for x in atoms if x[0] == 4]
        irr["routes6"][NAMES[a]] = [prefix(x) for x in atoms if x[0] == 6]
    for n, o in db["rtSets"].items():
        irr["route_sets"][NAMES[n]] = [NAMES[m] for m in o["sets"]] + [prefix(x) for x in o["items"]]
    irr["filter_sets2"] = {}
    for n, e in db["fltSets"].items():
        if n == "F3":
            irr["filter_sets2"][NAMES[n]] = render(e)
        else:
            irr["filter_sets"][NAMES[n]] = render(e)
    for n, e in db.get("_reg2", {}).items():
        irr["filter_sets2"][NAMES[n]] = render(e)
    return irr

def v4_only(e):
    """can this subtree only ever denote IPv4 prefixes? (a bounded v4 range operator drops every IPv6 prefix)"""
    if e["op"] in ("asset", "as", "rset"):
        return e["rng"] != [0, 0]
    if e["op"] == "lit":
        return e["rng"] != [0, 0] or all(a[0] == 4 for a in e["atoms"])
    if e["op"] == "fset":
        return False
    if e["op"] == "and":
        return v4_only(e["l"]) or v4_only(e["r"])
    if e["op"] == "andnot":
        return v4_only(e["l"])
    return v4_only(e["l"]) and v4_only(e["r"])

def exprs(b, rng, n, depth, allow_v6_complement=0):
    """expression trees over the TLC-enumerated leaves.  AND NOT over a right operand that can contain IPv6
    prefixes is only generated `allow_v6_complement` times: the complement of an IPv6 set does not terminate
    in the generic-ip dependency (known finding), and every such case costs the watchdog time."""
    leaves = b["leaves"]; ops = b["ops"]
    def tree(d):
        if d == 0 or rng.random() < 0.25:
            return rng.choice(leaves)
        op = rng.choice(ops); l = tree(d - 1); r = tree(d - 1)
        if op == "andnot":
            for _ in range(20):
                if v4_only(r):
                    break
                r = tree(d - 1)
            else:
                op = "and"
        return {"op": op, "l": l, "r": r}
    out = list(leaves)
    while len(out) < n:
        out.append(tree(depth))
    rng.shuffle(out)
    # names reached along several paths of one expression always take part
    shared = list(b.get("shared", [])); rng.shuffle(shared)
    out = shared[: max(2, n // 6)] + out
    out = out[:n]
    for _ in range(allow_v6_complement):
        out.append({"op": "andnot", "l": {"op": "lit", "atoms": [[4, 8, 0]], "rng": [0, 0]},
                    "r": {"op": "lit", "atoms": [[4, 9, 0], [6, 32, 0]], "rng": [0, 0]}})
    return out

NOERR = {"asSets": [], "ases": [], "rtSets": [], "fltSets": []}

def check_c11(tier):
    t0 = time.time(); prop = "C11"
    verdict = Verdict(prop)
    wd = workdir(f"{prop}-{tier}")
    build_harness(["rpsl", "agentrun"]); build_repo_bins()
    b, gr = tlc_blocks()
    rng = random.Random(seed())
    ndb, nex = (400, 60) if tier == "thorough" else (40, 36)
    groups = []; ncase = 0
    for g in range(ndb):
        db = make_db(b, rng)
        cases = []
        es = exprs(b, rng, nex, 3 if tier == "thorough" else 2, allow_v6_complement=1 if g == 0 else 0)
        if g % 6 == 1:
            add_big(db, rng)
            big = {"op": "asset", "name": "SB", "rng": [0, 0]}
            es = [big, {"op": "and", "l": big, "r": {"op": "lit", "atoms": [[4, 8, 0]], "rng": [9, 10]}}] + es[:-2]
        for e in es:
            cases.append({"case": f"c{ncase}", "expr": e, "expr_str": render(e)}); ncase += 1
        # every fourth database answers with many kilobytes (padded objects, repeated members and routes)
        irr = irr_of(db, 9000 if len(groups) % 4 == 1 else 0)
        if len(groups) % 5 == 2:
            irr["dribble"] = [1, 5, 13, 100][(len(groups) // 5) % 4]   # the answers arrive in pieces of this many bytes
        groups.append({"db": db, "irr": irr, "names": NAMES, "cases": cases})
    # the ends of the address space, which lie outside the universe the model denotes over: the default routes, host
    # routes, the last address - as route objects of ASes, reached by AS number, through an as-set, in a route-set, and
    # combined; what is printed is compared literally
    edge_irr = {"as_sets": {"AS-EDGE": ["AS65030", "AS65031"]}, "route_sets": {"RS-EDGE": ["0.0.0.0/0", "::/0", "198.51.100.0/24"]}, "filter_sets": {},
                "routes4": {"AS65030": ["0.0.0.0/0", "192.0.2.0/24"], "AS65031": ["255.255.255.255/32"]},
                "routes6": {"AS65030": ["::/0"], "AS65031": ["ffff:ffff:ffff:ffff:ffff:ffff:ffff:ffff/128", "2001:db8:ffff::/48"]},
                "errors": {}, "empty_as_c": False, "pad": 0}
    a30 = ["0.0.0.0/0", "192.0.2.0/24", "::/0"]; a31 = ["255.255.255.255/32", "ffff:ffff:ffff:ffff:ffff:ffff:ffff:ffff/128", "2001:db8:ffff::/48"]
    rs = ["0.0.0.0/0", "::/0", "198.51.100.0/24"]
    edge = [("AS65030", a30), ("AS65031", a31), ("AS-EDGE", a30 + a31), ("RS-EDGE", rs), ("AS-EDGE AND RS-EDGE", ["0.0.0.0/0", "::/0"]),
            ("AS65031 OR RS-EDGE", a31 + rs)]
    # (no AND NOT here: with IPv6 prefixes on the left the complement runs into the recorded finding)
    groups.append({"db": {"asSets": {}, "routes": {}, "rtSets": {}, "fltSets": {}}, "irr": edge_irr, "names": NAMES,
                   "cases": [{"case": f"edge{k}", "expr": {"op": "lit", "atoms": [], "rng": [0, 0]}, "expr_str": x, "expect_ranges": sorted(w)} for k, (x, w) in enumerate(edge)]})
    gpath = os.path.join(wd, "groups.ndjson")
    with open(gpath, "w") as f:
        for g in groups:
            f.write(json.dumps(g) + "\n")
    trace = os.path.join(wd, "rpsl.trace")
    run_harness("rpsl", ["cli", gpath, os.path.join(REPO_BIN, "bgpfu")], trace, timeout=3000)
    # --- the agent installs exactly that set: same databases, one router per database
    scen = []
    for k, g in enumerate(groups[: (60 if tier == "thorough" else 12)]):
        running = []; policies = {}
        for c in g["cases"][:12]:
            name = "p-" + c["case"]
            running.append(agentgen.stmt(name, f"/* bgpfu-fltr: {c['expr_str']} */"))
            policies[name] = {"sel": True, "marked": True, "eval": "skip", "v4": [], "v6": [], "expr": "", "why": "c11"}
        # next to them a policy that names an as-set nobody registered: it is left out, the others get exactly their sets
        running.append(agentgen.stmt("p-unregistered", "/* bgpfu-fltr: AS-NOBODY-REGISTERED-THIS */"))
        policies["p-unregistered"] = {"sel": True, "marked": True, "eval": "fail", "v4": [], "v6": [], "expr": "", "why": "c11: unknown as-set"}
        scen.append({"case": f"C11-a{k}", "instance": "bgpfu", "eph0": [],
                     "runs": [{"running": running, "irr": g["irr"], "faults": [], "repeat": False,
                               "expect": {"prop": "C11", "c16": False, "policies": policies}}], "meta": {"group": k}})
    # ... and keeps them installed: the same routers served by ONE daemon process over several jobs - the first job's
    # commit is refused by the router / the router loses its ephemeral data between two jobs (reboot); what counts is
    # what is installed when the last job has reported success
    last_run = {}
    for s in list(scen[: (12 if tier == "thorough" else 4)]):
        run = s["runs"][0]
        bad = dict(run, faults=[{"target": "commit", "index": 0, "kind": "rpc-error"}])
        scen.append(dict(s, case=s["case"] + "-D1", daemon={"period": 1, "sessions": 2, "reset_before": []}, runs=[bad, run],
                         meta=dict(s["meta"], mode="daemon: first commit refused")))
        scen.append(dict(s, case=s["case"] + "-D2", daemon={"period": 1, "sessions": 3, "reset_before": [3]}, runs=[run],
                         meta=dict(s["meta"], mode="daemon: ephemeral data lost before the third job")))
        # ... and the registry changes between two jobs: first no AS has route6 objects, then all of them are there
        v4only = dict(run, irr=dict(run["irr"], routes6={a: [] for a in run["irr"]["routes6"]}))
        scen.append(dict(s, case=s["case"] + "-D3", daemon={"period": 1, "sessions": 2, "reset_before": []}, runs=[v4only, run],
                         meta=dict(s["meta"], mode="daemon: the IPv6 route objects appear between two jobs")))
        last_run[s["case"] + "-D1"] = 2; last_run[s["case"] + "-D2"] = 3; last_run[s["case"] + "-D3"] = 2
    spath = os.path.join(wd, "agent-scenarios.ndjson")
    with open(spath, "w") as f:
        for s in scen:
            f.write(json.dumps(s) + "\n")
    atrace = os.path.join(wd, "agent.trace")
    run_harness("agentrun", ["agent", spath, os.path.join(REPO_BIN, "bgpfu-junos-agent"), 8], atrace, timeout=3000)
    # project what the agent installed to evaluation events (accept-set of every policy)
    bycase = {c["case"]: (g, c) for g in groups for c in g["cases"]}
    nagent = 0
    with open(trace, "a") as out:
        exit_ok = {}
        for line in open(atrace):
            e = json.loads(line)
            if e["ev"] == "exit":
                exit_ok[e["case"]] = e["code"] == 0
            if e["ev"] != "run_end":
                continue
            if e["case"] in last_run and e.get("run") != last_run[e["case"]]:
                continue
            k = int(e["case"].split("-a")[1].split("-")[0]); g = groups[k]
            via = "agent (daemon, job %d)" % e["run"] if e["case"] in last_run else "agent"
            installed = {p["name"]: p for p in e["eph"]}
            for c in g["cases"][:12]:
                pol = installed.get("p-" + c["case"])
                atoms, extra, outcome = [], False, "ok"
                if pol is None:
                    outcome = "err"          # not installed: the agent could not evaluate it (or the run failed)
                else:
                    names = []
                    for t in pol["terms"]:
                        if not t["accept"]:
                            continue
                        for fl in t["filters"]:
                            d = e["den"][fl]; extra |= d["extra"]
                            for a in d["atoms"]:
                                if a not in names:
                                    names.append(a)
                        if not t["filters"] or t["family"] == "none":
                            extra = True
                    for a in names:
                        net = ipaddress.ip_network(a)
                        if net.version == 4:
                            atoms.append([4, net.prefixlen, (int(net.network_address) - int(ipaddress.IPv4Address("10.0.0.0"))) >> (32 - net.prefixlen)])
                        else:
                            atoms.append([6, net.prefixlen, (int(net.network_address) - int(ipaddress.IPv6Address("2001:db8::"))) >> (128 - net.prefixlen)])
                out.write(json.dumps({"ev": "eval", "via": via, "prop": "C11", "case": c["case"], "db": g["db"], "expr": c["expr"],
                                      "expr_str": c["expr_str"], "errs": NOERR, "pos": 1, "outcome": outcome, "atoms": atoms,
                                      "extra": extra}) + "\n")
                nagent += 1
    stats, viols = validate_trace("RpslTrace", trace, prop, f"{prop}-{tier}", TRACE_CFG, nchunks=12, independent=True)
    for v in viols:
        g, c = bycase.get(v.get("case"), ({}, {}))
        payload = {"property": prop, "rule": v["rule"], "disc": v["disc"], "occurrences": v.get("n", 1), "expr": v.get("info"),
                   "group": {"db": g.get("db"), "irr": g.get("irr"), "names": NAMES, "cases": [c]}}
        verdict.report(v["rule"], v["disc"], payload, detail=f"expr={v.get('info')} n={v.get('n', 1)}")
    cov = {"states": stats["lines"] + 1, "transitions": stats["lines"], "traces_validated_against_impl": stats["lines"],
           "evaluations": stats["lines"], "distinct_nontrivial": stats.get("nonempty", 0),
           "samples": [{"db": groups[0]["db"], "expr": groups[0]["cases"][0]["expr_str"]}, {"expr": groups[-1]["cases"][-1]["expr_str"]}],
           "databases": ndb, "expressions_per_database": nex, "evaluations_by_bgpfu_command": ncase, "evaluations_by_agent": nagent,
           "evaluations_that_failed": stats.get("failed"), "exhaustive": False, "known_findings_reproduced": verdict.known_hits,
           "rule": "databases composed from the TLC-enumerated options of every dimension (as-set membership incl. cycles, 6 route sets per AS "
                   "incl. v4-only/v6-only/none/duplicates, route-set and filter-set contents) x expression trees over the TLC-enumerated leaves "
                   "(as-set, AS, route-set, filter-set, literal; bounded range operators) with AND / OR / AND NOT; executed by the real bgpfu "
                   "command and by the agent against the fake IRRd; TLC recomputes Rpsl!Eval for every line; non-trivial = non-empty result"}
    write_evidence(prop, tier, "model_checking", cov,
                   ["Rpsl.tla is my transcription of RFC 2622/4012 set semantics (trusted oracle)",
                    "range operators are limited to ^n / ^n-m with n not below the operand's prefix lengths; ^+ and ^- are not covered",
                    "results are compared as sets of prefixes over the universe 10.0.0.0/8 len 8-11, 2001:db8::/32 len 32-34"],
                   time.time() - t0, len(verdict.violations))
    return verdict.exit_code()

IRRD_CFG = """SPECIFICATION Spec
CONSTANTS
  Calls <- MCCalls
  MaxCalls = %d
  DrainOnDrop = %s
  Ans <- MCAns
  AnsAll <- MCAnsAll
  WidenOnNotUnique = %s
INVARIANT SelectionKept
INVARIANT Aligned
INVARIANT CleanStart
INVARIANT HistoryFree
%s
CHECK_DEADLOCK FALSE
"""

def irrd_design(tier):
    """Irrd.tla: the pipelined query protocol as query.rs / irrc use it, every history of resolver calls; the
    negative control (a dropped pipeline forgets what is outstanding) must be refuted by TLC."""
    n = 4 if tier == "thorough" else 3
    pos = run_tlc("MCIrrd", IRRD_CFG % (n, "TRUE", "FALSE", "PROPERTY Finishes"), "irrd-design", workers=8, timeout=3000)
    if pos["violated"]:
        raise ToolError(f"Irrd.tla: {pos['violated']} violated by the model of the code as it is (see {pos['out']})")
    neg = run_tlc("MCIrrd", IRRD_CFG % (2, "FALSE", "FALSE", ""), "irrd-negative", workers=4, timeout=600)
    if not neg["violated"]:
        raise ToolError("Irrd.tla: the negative control (DrainOnDrop = FALSE) was not refuted - the model lost its teeth")
    neg2 = run_tlc("MCIrrd", IRRD_CFG % (2, "TRUE", "TRUE", ""), "irrd-negative-sources", workers=4, timeout=600)
    if not neg2["violated"]:
        raise ToolError("Irrd.tla: the negative control (WidenOnNotUnique = TRUE) was not refuted - the model lost its teeth")
    return {"module": "Irrd.tla / MCIrrd", "histories_of_resolver_calls_up_to": n, "states": pos["distinct"], "transitions": pos["generated"],
            "depth": pos["depth"], "invariants": ["Aligned", "CleanStart", "HistoryFree", "SelectionKept"], "liveness": "Finishes",
            "negative_control": {"DrainOnDrop": False, "violated": neg["violated"], "states": neg["distinct"]},
            "negative_control_sources": {"WidenOnNotUnique": True, "violated": neg2["violated"], "states": neg2["distinct"]}}

def check_c17(tier):
    t0 = time.time(); prop = "C17"
    verdict = Verdict(prop)
    wd = workdir(f"{prop}-{tier}")
    build_harness(["rpsl"])
    design = irrd_design(tier)
    b, gr = tlc_blocks()
    rng = random.Random(seed())
    nhist, hlen = (1500, 6) if tier == "thorough" else (150, 5)
    groups = []; ncase = 0
    for g in range(nhist):
        db = make_db(b, rng)
        hist = []
        for e in exprs(b, rng, hlen, 2):
            errs = {"asSets": [], "ases": [], "rtSets": [], "fltSets": [], "kind": rng.choice(["D", "E", "F"])}
            if rng.random() < 0.5:
                which = rng.choice(["asSets", "ases", "rtSets", "fltSets", "ases"])
                pool = {"asSets": ["S1", "S2"], "ases": ["A1", "A2", "A3"], "rtSets": ["R1", "R2"], "fltSets": ["F1"]}[which]
                errs[which] = rng.sample(pool, rng.randint(1, len(pool)))
            hist.append({"case": f"h{g}-{len(hist)}", "expr": e, "expr_str": render(e), "errs": errs}); ncase += 1
        irr = irr_of(db, 9000 if g % 5 == 2 else 0)
        if g % 7 == 3:
            irr["dribble"] = [1, 3, 7, 64][(g // 7) % 4]     # the answers arrive in pieces of this many bytes
        groups.append({"db": db, "irr": irr, "names": NAMES, "twice": g % 2 == 0, "history": hist})
    # long streaks of failing evaluations (each touching filter-, as- and route-sets) before clean ones: state that an
    # evaluator only resets on success, or that builds up per failure, shows only here
    F1 = {"op": "fset", "name": "F1"}; S = lambda n: {"op": "asset", "name": n, "rng": [0, 0]}; R1 = {"op": "rset", "name": "R1", "rng": [0, 0]}
    for g in range(30 if tier == "thorough" else 6):
        db = make_db(b, rng); hist = []
        streak = 20 + 6 * (g % 3)
        for k in range(streak):
            e = [{"op": "and", "l": F1, "r": S("S1")}, {"op": "or", "l": S("S2"), "r": F1}, {"op": "and", "l": {"op": "or", "l": F1, "r": R1}, "r": S("S1")}][k % 3]
            errs = {"asSets": ["S1", "S2"], "ases": [], "rtSets": [], "fltSets": [], "kind": ["D", "E", "F"][(g + k) % 3]}
            hist.append({"case": f"L{g}-{len(hist)}", "expr": e, "expr_str": render(e), "errs": errs}); ncase += 1
        for e in [F1, S("S1"), {"op": "or", "l": F1, "r": R1}] + exprs(b, rng, 4, 2):
            hist.append({"case": f"L{g}-{len(hist)}", "expr": e, "expr_str": render(e),
                         "errs": {"asSets": [], "ases": [], "rtSets": [], "fltSets": [], "kind": "D"}}); ncase += 1
        groups.append({"db": db, "irr": irr_of(db), "names": NAMES, "twice": g % 2 == 0, "history": hist})
    # ... and long runs of evaluations every one of which meets errors the evaluator sinks (route queries, route-set and
    # filter-set look-ups answered E / F): each result is still the history-free one
    for g in range(20 if tier == "thorough" else 4):
        db = make_db(b, rng); hist = []
        pool = [{"op": "or", "l": S("S1"), "r": F1}, {"op": "or", "l": R1, "r": S("S2")}, {"op": "or", "l": {"op": "as", "name": "A1", "rng": [0, 0]}, "r": R1},
                {"op": "and", "l": S("S1"), "r": {"op": "or", "l": F1, "r": S("S2")}}]
        for k in range(44):
            e = pool[k % len(pool)]
            errs = {"asSets": [], "ases": [["A1"], ["A2", "A3"], ["A1", "A2", "A3"]][k % 3], "rtSets": ["R1"] if k % 2 else ["R1", "R2"],
                    "fltSets": ["F1"] if k % 3 == 0 else [], "kind": ["E", "F"][(g + k) % 2]}
            hist.append({"case": f"K{g}-{len(hist)}", "expr": e, "expr_str": render(e), "errs": errs}); ncase += 1
        groups.append({"db": db, "irr": irr_of(db), "names": NAMES, "twice": False, "history": hist})
    gpath = os.path.join(wd, "histories.ndjson")
    with open(gpath, "w") as f:
        for g in groups:
            f.write(json.dumps(g) + "\n")
    trace = os.path.join(wd, "rpsl.trace")
    run_harness("rpsl", ["lib", gpath, prop], trace, timeout=3000)
    stats, viols = validate_trace("RpslTrace", trace, prop, f"{prop}-{tier}", TRACE_CFG, nchunks=12, independent=True)
    byhist = {h["case"]: (g, k) for g in groups for k, h in enumerate(g["history"])}
    for v in viols:
        g, k = byhist.get(v.get("case"), ({}, 0))
        payload = {"property": prop, "rule": v["rule"], "disc": v["disc"], "occurrences": v.get("n", 1), "expr": v.get("info"),
                   "position_in_history": k + 1, "history_group": g}
        verdict.report(v["rule"], v["disc"], payload, detail=f"expr={v.get('info')} n={v.get('n', 1)}")
    # the agent evaluates all its policies on one evaluator: a policy whose evaluation fails (or panics) must not
    # change what the policies after it evaluate to (junos-agent/src/policies/eval.rs)
    import check_agent
    agent = check_agent.side_run(prop, tier, verdict)
    drift = {"evaluations_whose_query_log_was_compared_with_the_protocol_model": stats.get("qchecked", 0),
             "MODEL-DRIFT": stats.get("drift", 0), "first_drifting_case": stats.get("driftcase") or None,
             "meaning": "the queries the real evaluator sent for an evaluation are exactly those IrrdProto!QueriesOfA predicts from the "
                        "expression, the database and the answers (order included); a difference is reported here and is not an alarm"}
    if drift["MODEL-DRIFT"]:
        log(f"MODEL-DRIFT: {drift['MODEL-DRIFT']} evaluations sent other queries than Irrd.tla predicts (first: {drift['first_drifting_case']})")
    cov = {"protocol_design_check": design, "protocol_conformance": drift, "agent_policy_sequences": agent, "states": stats["lines"] + 1 + design["states"], "transitions": stats["lines"], "traces_validated_against_impl": len(groups), "long_failure_streak_histories": len(groups) - nhist,
           "evaluations": stats["lines"], "distinct_nontrivial": stats.get("later", 0),
           "samples": [{"history": [h["expr_str"] + " errs=" + json.dumps({k: v for k, v in h["errs"].items() if v and k != "kind"}) for h in groups[0]["history"]]}],
           "histories": nhist, "evaluations_per_history": hlen, "evaluations_with_failed_outcome": stats.get("failed"),
           "exhaustive": False, "known_findings_reproduced": verdict.known_hits,
           "rule": "seeded histories of evaluations on ONE bgpfu::RpslEvaluator (public API) against the fake IRRd; before each evaluation a fresh "
                   "set of IRR errors (key not found / not unique / other) is injected for chosen as-set, per-AS route, route-set and filter-set "
                   "queries; every second database answers filter-set queries with two objects so that responses are only partly consumed; "
                   "TLC checks result_i = Rpsl!Eval(expr_i, db, errs_i), which does not depend on the history; non-trivial = evaluations at position > 1"}
    write_evidence(prop, tier, "model_checking", cov,
                   ["error semantics of the evaluator as designed: an error on the as-set member query fails the evaluation, errors on per-AS route, "
                    "route-set and filter-set queries are sunk to 'contributes nothing'"],
                   time.time() - t0, len(verdict.violations))
    return verdict.exit_code()

def check(prop, tier):
    return check_c11(tier) if prop == "C11" else check_c17(tier)

def replay(prop, path):
    payload = json.load(open(path))
    build_harness(["rpsl"]); build_repo_bins()
    wd = workdir(f"{prop}-replay")
    gpath = os.path.join(wd, "g.ndjson"); trace = os.path.join(wd, "rpsl.trace")
    if prop == "C11":
        open(gpath, "w").write(json.dumps(payload["group"]) + "\n")
        run_harness("rpsl", ["cli", gpath, os.path.join(REPO_BIN, "bgpfu")], trace)
    else:
        open(gpath, "w").write(json.dumps(payload["history_group"]) + "\n")
        run_harness("rpsl", ["lib", gpath, prop], trace)
    print(open(trace).read()[:6000])
    stats, viols = validate_trace("RpslTrace", trace, prop, f"{prop}-replay", TRACE_CFG, nchunks=1, independent=True)
    verdict = Verdict(prop)
    for v in viols:
        verdict.report(v["rule"], v["disc"], payload)
    return verdict.exit_code()
