#!/usr/bin/env python3
"""Binding self-test: for every trace specification take an execution recorded from the real code,
check that it is accepted, then corrupt ONE recorded field and require the specification to report a
violation (a specification that nothing binds to the code would accept both).  Exit 0 = every
corruption was caught; exit 2 otherwise."""
import json, os, sys, re
sys.path.insert(0, os.path.dirname(os.path.abspath(__file__)))
from vlib import *
import check_session, check_wire, check_agent, check_daemon, check_rpsl, check_framing, agentgen

def lines(p):
    return open(p).read().splitlines()

def expect(name, module, cfgtext, trace, prop, want_rule, independent=False, extra_env=None):
    stats, viols = validate_trace(module, trace, prop, "selftest-" + name, cfgtext, nchunks=1, independent=independent, extra_env=extra_env)
    rules = sorted(set(v["rule"] for v in viols if v.get("prop", prop) in (prop, "TOOL")))
    ok = (want_rule is None and not rules) or (want_rule is not None and want_rule in rules)
    print(f"{'ok  ' if ok else 'FAIL'} {name}: expected {want_rule or 'no violation'}, got {rules or 'none'}")
    return ok

def main():
    build_harness(["sess", "wire", "daemon", "rpsl", "agentrun"]); build_repo_bins()
    wd = workdir("selftest"); good = True
    # ---- Session
    t = os.path.join(wd, "sess.trace")
    run_harness("sess", ["random", 5, 30, 30, 0, 0], t)
    good &= expect("session/recorded", "SessionTrace", check_session.TRACE_CFG, t, "C05", None)
    ls = lines(t); k = next(i for i, l in enumerate(ls) if '"state":"ok"' in l)
    e = json.loads(ls[k]); e["res"]["tag"] += 1; ls[k] = json.dumps(e, separators=(",", ":"))
    t2 = os.path.join(wd, "sess-corrupt.trace"); open(t2, "w").write("\n".join(ls) + "\n")
    good &= expect("session/result-tag-changed", "SessionTrace", check_session.TRACE_CFG, t2, "C05", "OwnReply")
    ls = lines(t); k = next(i for i, l in enumerate(ls) if '"ev":"reply"' in l); del ls[k]
    t3 = os.path.join(wd, "sess-missing.trace"); open(t3, "w").write("\n".join(ls) + "\n")
    good &= expect("session/reply-event-removed", "SessionTrace", check_session.TRACE_CFG, t3, "C05", "OwnReply")
    # ---- Wire (C08)
    cases = {"cases": [{"type": "empty", "top": ["E"], "inner": ["ok"]}, {"type": "empty", "top": ["ok"], "inner": ["ok"]}]}
    cp = os.path.join(wd, "c08.json"); json.dump(cases, open(cp, "w"))
    t = os.path.join(wd, "c08.trace"); run_harness("wire", ["c08", cp], t)
    good &= expect("wire/recorded", "WireTrace", check_wire.TRACE_CFG, t, "C08", None, independent=True)
    ls = lines(t); e = json.loads(ls[0]); e["outcome"] = "ok"; e["errs"] = []; ls[0] = json.dumps(e)
    t2 = os.path.join(wd, "c08-corrupt.trace"); open(t2, "w").write("\n".join(ls) + "\n")
    good &= expect("wire/outcome-changed-to-ok", "WireTrace", check_wire.TRACE_CFG, t2, "C08", "ErrorReportedAsSuccess", independent=True)
    # ---- Daemon
    cp = os.path.join(wd, "d.ndjson")
    open(cp, "w").write(json.dumps({"case": "d0", "period": 100, "jobs": [{"ok": False, "dur": 0}, {"ok": False, "dur": 0}, {"ok": True, "dur": 0}],
                                    "signals": [], "horizon": 2000}) + "\n")
    t = os.path.join(wd, "d.trace"); run_harness("daemon", ["run", cp, 1], t)
    good &= expect("daemon/recorded", "DaemonTrace", check_daemon.TRACE_CFG, t, "C19", None)
    ls = lines(t); k = [i for i, l in enumerate(ls) if '"ev":"start"' in l][1]
    e = json.loads(ls[k]); e["t"] -= 30; ls[k] = json.dumps(e)
    t2 = os.path.join(wd, "d-corrupt.trace"); open(t2, "w").write("\n".join(ls) + "\n")
    good &= expect("daemon/start-time-shifted", "DaemonTrace", check_daemon.TRACE_CFG, t2, "C19", "FirstRetryNotAfterOneMinute")
    # ---- Agent (C04)
    sc = agentgen.fault_scenarios([{"n": 2, "target": "commit", "index": 0, "kind": "rpc-error"}], "C04")
    sp = os.path.join(wd, "a.ndjson"); open(sp, "w").write(json.dumps(sc[0]) + "\n")
    t = os.path.join(wd, "a.trace"); run_harness("agentrun", ["agent", sp, os.path.join(REPO_BIN, "bgpfu-junos-agent"), 1], t)
    good &= expect("agent/recorded", "AgentTrace", check_agent.TRACE_CFG, t, "C04", None)
    ls = lines(t); k = next(i for i, l in enumerate(ls) if '"ev":"exit"' in l)
    e = json.loads(ls[k]); e["code"] = 0; ls[k] = json.dumps(e)
    t2 = os.path.join(wd, "a-corrupt.trace"); open(t2, "w").write("\n".join(ls) + "\n")
    good &= expect("agent/exit-status-changed", "AgentTrace", check_agent.TRACE_CFG, t2, "C04", "FailedStepButRunReportedSuccess")
    ls = lines(t); k = next(i for i, l in enumerate(ls) if '"kind":"load"' in l)
    e = json.loads(ls[k]); e["update"]["policies"][0]["reject"] = False; e["state"] = None; del e["state"]; ls[k] = json.dumps(e)
    t3 = os.path.join(wd, "a-corrupt2.trace"); open(t3, "w").write("\n".join(ls) + "\n")
    good &= expect("agent/trailing-reject-removed-from-an-update", "AgentTrace", check_agent.TRACE_CFG, t3, "C02", "FailOpenPolicy")
    # ---- Agent (C16): two managed statements with one name - the run is expected to refuse
    sc = agentgen.dupname_scenarios("C16")
    sp = os.path.join(wd, "dup.ndjson"); open(sp, "w").write(json.dumps(sc[0]) + "\n")
    t = os.path.join(wd, "dup.trace"); run_harness("agentrun", ["agent", sp, os.path.join(REPO_BIN, "bgpfu-junos-agent"), 1], t)
    good &= expect("agent/two-statements-one-name recorded", "AgentTrace", check_agent.TRACE_CFG, t, "C16", None)
    ls = lines(t); k = next(i for i, l in enumerate(ls) if '"ev":"exit"' in l)
    e = json.loads(ls[k]); e["code"] = 0; ls[k] = json.dumps(e)
    t2 = os.path.join(wd, "dup-corrupt.trace"); open(t2, "w").write("\n".join(ls) + "\n")
    good &= expect("agent/two-statements-one-name exit-status-changed", "AgentTrace", check_agent.TRACE_CFG, t2, "C16", "RunSucceededAlthoughTwoManagedStatementsShareAName")
    # ---- Daemon: SIGHUP while a run is in progress - the run it asks for is the next line of the timeline
    cp = os.path.join(wd, "d2.ndjson")
    open(cp, "w").write(json.dumps({"case": "d1", "period": 300, "jobs": [{"ok": True, "dur": 5}, {"ok": True, "dur": 5}, {"ok": True, "dur": 5}],
                                    "signals": [{"after": 1, "delay": 1, "sig": "hup", "during": True}], "horizon": 2000}) + "\n")
    t = os.path.join(wd, "d2.trace"); run_harness("daemon", ["run", cp, 1], t)
    good &= expect("daemon/sighup-during-a-run recorded", "DaemonTrace", check_daemon.TRACE_CFG, t, "C19", None)
    ls = lines(t); ks = next(i for i, l in enumerate(ls) if '"ev":"signal"' in l)
    k = next(i for i, l in enumerate(ls) if i > ks and '"ev":"start"' in l)
    e = json.loads(ls[k]); e["t"] += 300; ls[k] = json.dumps(e)
    # (the runs behind it move as well: only the first judgement matters here)
    t2 = os.path.join(wd, "d2-corrupt.trace"); open(t2, "w").write("\n".join(ls[:k + 1]) + "\n")
    good &= expect("daemon/run-after-sighup-delayed", "DaemonTrace", check_daemon.TRACE_CFG, t2, "C19", "SighupDidNotTriggerImmediateRun")
    # ---- Rpsl (C17)
    b, _ = check_rpsl.tlc_blocks()
    import random
    rng = random.Random(3); db = check_rpsl.make_db(b, rng)
    db["asSets"]["S1"] = {"sets": [], "items": ["A1"]}; db["routes"]["A1"] = [[4, 9, 0], [4, 9, 1]]
    e = {"op": "asset", "name": "S1", "rng": [0, 0]}
    g = {"db": db, "irr": check_rpsl.irr_of(db), "names": check_rpsl.NAMES, "twice": False,
         "history": [{"case": "h0", "expr": e, "expr_str": check_rpsl.render(e), "errs": dict(check_rpsl.NOERR, kind="D")}]}
    gp = os.path.join(wd, "r.ndjson"); open(gp, "w").write(json.dumps(g) + "\n")
    t = os.path.join(wd, "r.trace"); run_harness("rpsl", ["lib", gp, "C17"], t)
    good &= expect("rpsl/recorded", "RpslTrace", check_rpsl.TRACE_CFG, t, "C17", None, independent=True)
    ls = lines(t); ev = json.loads(ls[0]); ev["atoms"] = ev["atoms"][:-1]; ls[0] = json.dumps(ev)
    t2 = os.path.join(wd, "r-corrupt.trace"); open(t2, "w").write("\n".join(ls) + "\n")
    good &= expect("rpsl/one-prefix-removed-from-the-result", "RpslTrace", check_rpsl.TRACE_CFG, t2, "C17", "PrefixesMissing", independent=True)
    # the protocol model (IrrdProto) is bound too: drop one recorded query and the drift counter must move
    stats0, _ = validate_trace("RpslTrace", t, "C17", "selftest-rpsl-drift0", check_rpsl.TRACE_CFG, nchunks=1, independent=True)
    ls = lines(t); ev = json.loads(ls[0]); k = next(i for i, q in enumerate(ev["qlog"]) if q["c"] == "6"); del ev["qlog"][k]; ls[0] = json.dumps(ev)
    t3 = os.path.join(wd, "r-drift.trace"); open(t3, "w").write("\n".join(ls) + "\n")
    stats1, _ = validate_trace("RpslTrace", t3, "C17", "selftest-rpsl-drift1", check_rpsl.TRACE_CFG, nchunks=1, independent=True)
    ok = stats0.get("qchecked") == 1 and not stats0.get("drift") and stats1.get("drift") == 1
    print(f"{'ok  ' if ok else 'FAIL'} rpsl/one-query-removed-from-the-log: expected MODEL-DRIFT 0 -> 1, got {stats0.get('drift')} -> {stats1.get('drift')}")
    good &= ok
    print("SELFTEST", "ok" if good else "FAILED")
    sys.exit(0 if good else 2)

if __name__ == "__main__":
    try:
        main()
    except ToolError as e:
        print("TOOL-ERROR selftest:", e); sys.exit(2)
