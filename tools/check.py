#!/usr/bin/env python3
"""./bin/check <Cxx> quick|thorough   |   ./bin/check <Cxx> --replay <path>"""
import sys, os, traceback
sys.path.insert(0, os.path.dirname(os.path.abspath(__file__)))
import vlib

DISPATCH = {
    "C05": "check_session", "C18": "check_session",
    "C01": "check_agent", "C02": "check_agent", "C03": "check_agent", "C04": "check_agent",
    "C15": "check_agent", "C16": "check_agent", "C19": "check_daemon", "C20": "check_logs",
    "C11": "check_rpsl", "C17": "check_rpsl",
    "C06": "check_framing", "C07": "check_framing",
    "C08": "check_wire", "C09": "check_wire", "C12": "check_wire", "C13": "check_wire", "C10": "check_wire", "C14": "check_wire",
}

def main():
    if len(sys.argv) < 3:
        print(__doc__); sys.exit(2)
    prop, tier = sys.argv[1], sys.argv[2]
    if prop not in DISPATCH:
        print(f"no check for {prop}"); sys.exit(2)
    mod = __import__(DISPATCH[prop])
    try:
        if tier == "--replay":
            rc = mod.replay(prop, sys.argv[3])
        else:
            tier = os.environ.get("VERIF_TIER", tier) if tier not in ("quick", "thorough") else tier
            rc = mod.check(prop, tier)
    except vlib.ToolError as e:
        print(f"TOOL-ERROR property={prop}: {e}", flush=True)
        sys.exit(2)
    except Exception:
        traceback.print_exc()
        print(f"TOOL-ERROR property={prop}: internal error", flush=True)
        sys.exit(2)
    print(f"RESULT property={prop} tier={tier} exit={rc}", flush=True)
    sys.exit(rc)

if __name__ == "__main__":
    main()
