#!/usr/bin/env python3
"""C01, C02, C03, C04, C15, C16 - the real agent binary against fake Junos + fake IRRd;
Junos.tla / AgentTrace.tla are the oracle; AgentGen.tla enumerates the case spaces."""
import json, os, time, random
from vlib import *
import agentgen

TRACE_CFG = """SPECIFICATION TSpec
INVARIANT Report
POSTCONDITION Accepted
CHECK_DEADLOCK FALSE
"""

def tlc_cases(family, depth, name):
    r = run_tlc("AgentGen", f'SPECIFICATION Spec\nCONSTANTS Family = "{family}" Depth = {depth}\n', name, workers=1, java_opts="-Xss512m")
    for line in open(r["out"], errors="replace"):
        if line.startswith('<<"GEN", '):
            return json.loads(json.loads(line.strip()[len('<<"GEN", '):-2]))["cases"], r
    raise ToolError(f"AgentGen printed no cases ({r['out']})")

def scenarios_for(prop, tier, rng):
    thorough = tier == "thorough"
    gens = []
    if prop in ("C01", "C02"):
        cases, r = tlc_cases("hist", 3 if thorough else 2, f"{prop}-gen-hist"); gens.append(r)
        cases = [list(h) for h in cases]
        rng.shuffle(cases)
        # histories through the corners always come first: a policy that is managed but evaluates to nothing
        # in both families, and one that stops being managed
        corner = lambda h: any(st["marked"] and not st["v4"] and not st["v6"] for st in h) or not h[-1]["marked"]
        cases = [h for h in cases if corner(h)] + [h for h in cases if not corner(h)]
        if thorough and len(cases) > 6000:
            cases = cases[:6000]
        if not thorough:
            cases = cases[:480]
        sc = agentgen.hist_scenarios(cases, 120 if thorough else 60, prop, rng, small=200 if thorough else 40)
        counts = {"histories": len(cases), "single_or_pair_routers": 200 if thorough else 40}
        if prop == "C01":
            # exit 0 must imply convergence also when the router rejected a step
            fc, r2 = tlc_cases("fault", 0, f"{prop}-gen-fault"); gens.append(r2)
        bg = agentgen.big_scenarios(prop)
        sc += bg if thorough or prop == "C02" else bg[1:]
        counts["big_policy_scenarios"] = len(bg) if thorough or prop == "C02" else 1
        sc += agentgen.boundary_scenarios(prop)
        counts["boundary_value_scenarios"] = 1
        if prop == "C01" or thorough:
            sc += agentgen.volume_scenarios(prop)
            counts["volume_scenarios(12 x 400 ranges)"] = 1
        if prop == "C02":
            xc, r3 = tlc_cases("foreign", 0, f"{prop}-gen-foreign"); gens.append(r3)
            sc += agentgen.foreign_scenarios(xc, prop)
            counts["foreign_installed_states"] = len(xc)
            tm = agentgen.tamper_scenarios(prop)
            sc += tm
            counts["tampered_after_own_install"] = len(tm)
            rf = agentgen.c02_fault_scenarios(prop)
            sc += rf
            counts["installed_policies_with_the_router_refusing_the_open_or_a_load"] = len(rf)
        if prop == "C01":
            fc = [c for c in fc if c["target"] in ("load", "commit", "none") and c["kind"] in ("rpc-error", "no-ok", "none", "delayed-error")]
            sc += agentgen.fault_scenarios(fc, prop)
            counts["fault_cases"] = len(fc)
            dm = agentgen.daemon_scenarios(prop)
            sc += dm
            counts["daemon_mode_scenarios"] = len(dm)
        return sc, gens, counts
    if prop == "C04":
        cases, r = tlc_cases("fault", 0, f"{prop}-gen"); gens.append(r)
        return agentgen.fault_scenarios(cases, prop), gens, {"fault_cases": len(cases)}
    if prop == "C03":
        cases, r = tlc_cases("c03", 0, f"{prop}-gen"); gens.append(r)
        return agentgen.c03_scenarios(cases, prop), gens, {"c03_cases": len(cases)}
    if prop in ("C15", "C17"):
        cases, r = tlc_cases("c15", 0, f"{prop}-gen"); gens.append(r)
        if not thorough:
            rng.shuffle(cases)
            cases = [q for q in cases if "ok" not in q][:25] + [q for q in cases if "ok" in q][:60]
        sc = agentgen.c15_scenarios(cases, prop, rng)
        counts = {"c15_cases": len(cases)}
        if prop == "C17":
            tr = agentgen.transient_scenarios(prop)
            sc += tr; counts["identical_expressions_with_a_transient_error"] = len(tr)
        return sc, gens, counts
    if prop == "C10":
        return agentgen.name_scenarios(prop), gens, {"tricky_policy_names": len(agentgen.TRICKY_NAMES)}
    if prop == "C12":
        # a session that was established is usable with a conforming server: the router implements NETCONF 1.1 as well
        # (advertises :base:1.0 and :base:1.1, chunked framing with a client that advertises :base:1.1 too), over the
        # agent's real transports (TLS and the local cli child)
        cases, r = tlc_cases("hist", 2, f"{prop}-gen-hist"); gens.append(r)
        cases = [list(h) for h in cases]; rng.shuffle(cases)
        sc = agentgen.hist_scenarios(cases[:60 if not thorough else 600], 20, prop, rng, small=2) + agentgen.big_scenarios(prop)[1:]
        for s in sc:
            s["caps11"] = True; s["meta"] = dict(s.get("meta") or {}, router="NETCONF 1.0 and 1.1")
        twins = []
        if ensure_cli_shim():
            for s in sc:
                t = json.loads(json.dumps(s)); t["case"] = s["case"] + "-L"; t["target"] = "local"
                t["meta"] = dict(t["meta"], target="local"); twins.append(t)
        return sc + twins, gens, {"routers_that_also_implement_netconf_1.1": len(sc), "of_these_through_the_local_target": len(twins)}
    if prop == "C14":
        cases, r = tlc_cases("garble", 1 if thorough else 0, f"{prop}-gen-garble"); gens.append(r)
        return agentgen.garble_scenarios(cases, prop), gens, {"damaged_reply_cases": len(cases)}
    if prop == "C13":
        cases, r = tlc_cases("style", 1 if thorough else 0, f"{prop}-gen-style"); gens.append(r)
        return agentgen.style_scenarios(cases, prop), gens, {"reply_styles": len(cases)}
    if prop == "C16":
        cases, r = tlc_cases("shape", 0, f"{prop}-gen"); gens.append(r)
        if not thorough:
            rng.shuffle(cases)
            cases = [c for c in cases if c["shape"]["nspfx"] != "jcmd"][:60] + [c for c in cases if c["shape"]["nspfx"] == "jcmd"][:200]
        sc = agentgen.shape_scenarios(cases, prop)
        hc, r2 = tlc_cases("shapehist", 1 if thorough else 0, f"{prop}-gen-hist"); gens.append(r2)
        sh = agentgen.shapehist_scenarios(hc, 49, prop)
        dn = agentgen.dupname_scenarios(prop)
        return sc + sh + dn, gens, {"statement_shapes": len(cases), "statement_shape_histories": len(hc), "configurations_with_a_name_used_twice": len(dn),
                               "routers_with_shape_histories(one process per run + one daemon process)": len(sh)}
    raise ToolError("no scenarios for " + prop)

DATA_INVS = {"C01": "InvConverged InvReadBack InvIdempotent", "C02": "InvUpdateSafe", "C03": "InvUntouched"}

def design(prop, tier):
    """TLC design check of the implementation-shaped run model (AgentRun.tla / MCAgentRun.tla): the plan
    computed by compare()+Differences over Junos!LoadPolicy for every input history (C01-C03), the request
    protocol with a fault at every reply (C04).  A violation here means the model is wrong, not the code."""
    res = []
    if prop in DATA_INVS:
        a6 = '{"c", "d"}' if tier == "thorough" else '{"c"}'
        consts = f'CONSTANTS PNames = {{"p", "q"}} A4 = {{"a", "b"}} A6 = {a6} MaxRuns = 3 MaxLoads = 2 '
        r = run_tlc("MCAgentRun", f"SPECIFICATION SpecData\n{consts} FixEmptyTerm = TRUE SkipNoReject = FALSE RejectBareTerm = TRUE\nINVARIANTS {DATA_INVS[prop]}\nCHECK_DEADLOCK FALSE\n",
                    f"{prop}-design", workers=12 if tier == "thorough" else 6, timeout=1500)
        res.append(r)
        if prop == "C01":
            # the model must be able to express the defect that was repaired (name-only term for an empty family)
            n = run_tlc("MCAgentRun", f"SPECIFICATION SpecData\n{consts} FixEmptyTerm = FALSE SkipNoReject = FALSE RejectBareTerm = TRUE\nINVARIANTS InvReadBack\nCHECK_DEADLOCK FALSE\n",
                        f"{prop}-design-asfound", workers=2)
            if n["violated"] != "InvReadBack":
                raise ToolError(f"AgentRun.tla no longer reproduces the repaired C01 defect (see {n['out']})")
            n["violated"] = None; n["name"] += " (expected InvReadBack violation: seen)"
            res.append(n)
        if prop == "C01":
            # the whole system (daemon loop + run + router, inputs and failures changing finitely often):
            # safety of the committed configuration and convergence as a liveness property under fairness
            b = 2 if tier == "thorough" else 1
            y = run_tlc("System", f'SPECIFICATION SSpec\nCONSTANTS PNames = {{"p", "q"}} A4 = {{"a", "b"}} A6 = {{"c"}} FixEmptyTerm = TRUE '
                        f'SkipNoReject = FALSE RejectBareTerm = TRUE Period = 45 MaxChanges = {b} MaxFaults = {b}\n'
                        'INVARIANTS NeverFailOpen AlwaysReadable InstalledIsLastApplied DelaysOk\nPROPERTIES OnlyCommitChanges EventuallyConverges\n'
                        'CHECK_DEADLOCK FALSE\n', f"{prop}-system", workers=8, timeout=1500)
            res.append(y)
        if prop == "C02":
            # ... and the C02 defect: an installed policy without trailing reject was skipped by the reader and merged into
            n = run_tlc("MCAgentRun", f"SPECIFICATION SpecData\n{consts} FixEmptyTerm = TRUE SkipNoReject = TRUE RejectBareTerm = TRUE\nINVARIANTS InvUpdateSafe\nCHECK_DEADLOCK FALSE\n",
                        f"{prop}-design-asfound", workers=2)
            if n["violated"] != "InvUpdateSafe":
                raise ToolError(f"AgentRun.tla no longer reproduces the repaired C02 defect (see {n['out']})")
            n["violated"] = None; n["name"] += " (expected InvUpdateSafe violation: seen)"
            res.append(n)
            # ... and the second C02 defect: a term matching on the family alone was read as an empty family and left in place
            n = run_tlc("MCAgentRun", f"SPECIFICATION SpecData\n{consts} FixEmptyTerm = TRUE SkipNoReject = FALSE RejectBareTerm = FALSE\nINVARIANTS InvUpdateSafe\nCHECK_DEADLOCK FALSE\n",
                        f"{prop}-design-asfound-bare", workers=2)
            if n["violated"] != "InvUpdateSafe":
                raise ToolError(f"AgentRun.tla no longer reproduces the repaired C02 defect 'term without route-filter' (see {n['out']})")
            n["violated"] = None; n["name"] += " (expected InvUpdateSafe violation: seen)"
            res.append(n)
    if prop == "C04":
        r = run_tlc("MCAgentRun", 'SPECIFICATION SpecProto\nCONSTANTS PNames = {"p"} A4 = {"a"} A6 = {} FixEmptyTerm = TRUE SkipNoReject = FALSE RejectBareTerm = TRUE MaxRuns = 1 '
                    f'MaxLoads = {5 if tier == "thorough" else 3}\nINVARIANTS InvCommitOnlyAfter InvSuccessOnly\nPROPERTY NoCommitAfterFailure\nCHECK_DEADLOCK FALSE\n',
                    f"{prop}-design", workers=2)
        res.append(r)
    for r in res:
        if r["violated"]:
            raise ToolError(f"design check {r['name']} violated {r['violated']} (see {r['out']})")
    return res

# every n-th scenario of these properties is also run through the agent's local target
LOCAL_SHARE = {"C01": 6, "C02": 8, "C03": 4, "C04": 3, "C15": 4, "C16": 6}

# every n-th scenario of these properties is also run in daemon mode (one process, all runs, last run repeated)
DAEMON_SHARE = {"C01": 8, "C02": 10, "C03": 2, "C04": 12, "C15": 6, "C16": 25}

LEVEL = {"C01": "model_checking", "C02": "model_checking", "C03": "model_checking", "C04": "model_checking",
         "C15": "model_checking", "C16": "model_checking"}

def run_and_validate(prop, tier, scenarios, wd, agent_bin=None):
    spath = os.path.join(wd, "scenarios.ndjson")
    with open(spath, "w") as f:
        for s in scenarios:
            f.write(json.dumps(s) + "\n")
    trace = os.path.join(wd, "agent.trace")
    run_harness("agentrun", ["agent", spath, agent_bin or os.path.join(REPO_BIN, "bgpfu-junos-agent"), 8], trace, timeout=3000)
    stats, viols = validate_trace("AgentTrace", trace, prop, f"{prop}-{tier}", TRACE_CFG, nchunks=8)
    return trace, stats, viols

def side_run(prop, tier, verdict, any_rule=False):
    """Agent part of a property whose main check lives in another engine (C13: the router's replies and
    configuration data in every style).  Reports violations through `verdict`, returns coverage facts."""
    wd = workdir(f"{prop}-{tier}-agent")
    build_harness(["agentrun"]); build_repo_bins()
    scenarios, gens, counts = scenarios_for(prop, tier, random.Random(seed()))
    trace, stats, viols = run_and_validate(prop, tier + "-agent", scenarios, wd)
    bycase = {s["case"]: s for s in scenarios}
    for v in viols:
        if v["prop"] == "TOOL":
            raise ToolError(f"{v['rule']} in case {v.get('case')}: the fake router and Junos.tla disagree")
        if v["prop"] == prop or any_rule:
            verdict.report(v["rule"], v["disc"], {"property": prop, "rule": v["rule"], "disc": v["disc"], "occurrences": v.get("n", 1),
                                                  "scenario": bycase.get(v.get("case")), "events": trace_slice(trace, v.get("case"), 80)},
                           detail=f"case={v.get('case')} n={v.get('n', 1)}")
    tool = [json.loads(l) for l in open(trace) if '"tool_error"' in l]
    if tool:
        raise ToolError(f"fake router: {tool[0]}")
    return dict(counts, agent_scenarios=len(scenarios), agent_runs=stats.get("runs"), agent_runs_reporting_success=stats.get("okruns"),
                agent_trace_lines=stats["lines"], agent_sample=scenarios[len(scenarios) // 2]["meta"])

def check(prop, tier):
    t0 = time.time()
    verdict = Verdict(prop)
    wd = workdir(f"{prop}-{tier}")
    build_harness(["agentrun"])
    build_repo_bins()
    rng = random.Random(seed())
    designs = design(prop, tier)
    scenarios, gens, counts = scenarios_for(prop, tier, rng)
    # the same scenarios through the agent's other target: `local` spawns /usr/sbin/cli (a shim installed by
    # bin/setup) and speaks NETCONF over the child's pipes - Session::junos_local() and JunosLocal::connect() as they are
    if prop in LOCAL_SHARE and ensure_cli_shim():
        step = LOCAL_SHARE[prop] if tier != "thorough" else max(1, LOCAL_SHARE[prop] // 2)
        twins = []
        for s in scenarios[::step]:
            if s.get("daemon"):
                continue
            t = json.loads(json.dumps(s)); t["case"] = s["case"] + "-L"; t["target"] = "local"
            t["meta"] = dict(t.get("meta") or {}, target="local")
            twins.append(t)
        scenarios += twins
        counts["scenarios_through_the_local_target"] = len(twins)
    # ... and in daemon mode: one agent process performs all runs of a scenario and repeats the last one
    if prop in DAEMON_SHARE:
        step = DAEMON_SHARE[prop] if tier != "thorough" else max(1, DAEMON_SHARE[prop] // 2)
        dt = agentgen.daemon_twins([s for s in scenarios if s.get("target") != "local"], step)
        scenarios += dt
        counts["scenarios_in_daemon_mode"] = len(dt) + counts.get("daemon_mode_scenarios", 0)
    trace, stats, viols = run_and_validate(prop, tier, scenarios, wd)
    bycase = {s["case"]: s for s in scenarios}
    for v in viols:
        if v["prop"] == "TOOL":
            raise ToolError(f"{v['rule']} in case {v.get('case')}: the fake router and Junos.tla disagree")
        if v["prop"] != prop:
            continue
        sc = bycase.get(v.get("case"))
        payload = {"property": prop, "rule": v["rule"], "disc": v["disc"], "occurrences": v.get("n", 1), "scenario": sc,
                   "events": trace_slice(trace, v.get("case"), 60)}
        verdict.report(v["rule"], v["disc"], payload, detail=f"case={v.get('case')} n={v.get('n', 1)}")
    if prop == "C15" and tier == "thorough":
        # the same sets of policies through the agent built with the workspace's release profile: containing an
        # unevaluable policy depends on what a panic does, and that is the profile's business
        from vlib import build_repo_bins_release
        rbin = build_repo_bins_release()
        rsc = [dict(s, case=s["case"] + "-R") for s in scenarios if not s.get("daemon") and s.get("target") != "local"][:80]
        rtrace, rstats, rviols = run_and_validate(prop, tier + "-release", rsc, workdir(f"{prop}-{tier}-release"), agent_bin=rbin)
        rby = {s["case"]: s for s in rsc}
        for v in rviols:
            if v["prop"] == prop:
                verdict.report(v["rule"], v["disc"] + " (release build)", {"property": prop, "rule": v["rule"], "disc": v["disc"], "scenario": rby.get(v.get("case")),
                                                                          "build": "release", "events": trace_slice(rtrace, v.get("case"), 60)},
                               detail=f"case={v.get('case')} n={v.get('n', 1)} release build")
        counts["scenarios_also_run_with_the_release_build"] = len(rsc)
    sample = dict(scenarios[len(scenarios) // 2]); sample["runs"] = [dict(r, irr="...", running=r["running"][:3],
                  expect={"policies": dict(list(r["expect"]["policies"].items())[:3])}) for r in sample["runs"][:1]]
    cov = {"states": stats["lines"] + 1, "transitions": stats["lines"], "traces_validated_against_impl": len(scenarios),
           "samples": [sample], "agent_runs": stats.get("runs"), "agent_runs_reporting_success": stats.get("okruns"),
           "load_configuration_requests_judged": stats.get("loads"), "commits_seen": stats.get("commits"),
           "evaluations": stats.get("runs", 0), "distinct_nontrivial": stats.get("loads", 0),
           "design_checks": [{"name": d["name"], "module": d["module"], "generated": d["generated"], "distinct": d["distinct"],
                              "wall_s": d["wall_s"]} for d in designs],
           "tlc_generators": [{"name": g["name"], "wall_s": g["wall_s"]} for g in gens],
           "exhaustive": tier == "thorough", "known_findings_reproduced": verdict.known_hits,
           "rule": "abstract cases enumerated by TLC (AgentGen.tla), concretised by tools/agentgen.py, executed by the unmodified "
                   "bgpfu-junos-agent binary (one-shot, TLS) against the fake Junos and fake IRRd; AgentTrace.tla recomputes the ephemeral "
                   "configuration with Junos!Load and evaluates the contracts on every request, exit status and run end; "
                   "non-trivial = load-configuration requests judged"}
    cov.update(counts)
    write_evidence(prop, tier, LEVEL[prop], cov,
                   ["Junos.tla (merge/delete semantics J1-J5, policy evaluation) is the trusted oracle; the fake router's Rust copy is "
                    "cross-checked against it on every load",
                    "route-filters are compared by denotation over the prefix universe 10.0.0.0/8 len 8-11 and 2001:db8::/32 len 32-34",
                    "expected prefix data are the route objects the scenario builder put into the fake IRRd"],
                   time.time() - t0, len(verdict.violations))
    return verdict.exit_code()

def replay(prop, path):
    payload = json.load(open(path))
    build_harness(["agentrun"]); build_repo_bins()
    wd = workdir(f"{prop}-replay")
    trace, stats, viols = run_and_validate(prop, "replay", [payload["scenario"]], wd)
    print(open(trace).read()[:20000])
    verdict = Verdict(prop)
    for v in viols:
        if v["prop"] == prop:
            verdict.report(v["rule"], v["disc"], payload)
    return verdict.exit_code()
