#!/usr/bin/env python3
"""Turn a TLC edge dump (lines `<<"EDGE", "<json>">>`) into walks from the initial
state that together cover every edge (or a budgeted subset), one harness case per walk.

usage: walks.py <tlc-output> <cases-out.ndjson> [--max-len N] [--max-walks K] [--seed S] [--prefix P]
Prints a JSON summary (states, edges, covered, walks) on stdout.
"""
import sys, json, random, collections, argparse

def parse_edges(path):
    edges = []
    with open(path, errors="replace") as f:
        for line in f:
            if not line.startswith('<<"EDGE", '):
                continue
            s = line.strip()
            body = s[len('<<"EDGE", '):-2]          # a TLA+ string literal holding JSON
            js = json.loads(body)                    # unescape the TLA+ string (JSON-compatible escapes)
            e = json.loads(js)
            edges.append(e)
    return edges

def main():
    ap = argparse.ArgumentParser()
    ap.add_argument("tlcout"); ap.add_argument("cases")
    ap.add_argument("--max-len", type=int, default=40)
    ap.add_argument("--max-walks", type=int, default=0)
    ap.add_argument("--seed", type=int, default=0)
    ap.add_argument("--prefix", default="w")
    a = ap.parse_args()
    edges = parse_edges(a.tlcout)
    if not edges:
        print(json.dumps({"error": "no edges"})); sys.exit(2)
    ids = {}
    def sid(k):
        if k not in ids: ids[k] = len(ids)
        return ids[k]
    adj = collections.defaultdict(list)
    targets = set()
    E = []
    for e in edges:
        u, v = sid(e["from"]), sid(e["to"])
        adj[u].append(len(E)); E.append((u, v, e["cmd"])); targets.add(v)
    roots = [s for s in range(len(ids)) if s not in targets] or [0]
    init = roots[0]
    # BFS tree from init
    parent = {init: None}
    dq = collections.deque([init])
    while dq:
        u = dq.popleft()
        for ei in adj[u]:
            v = E[ei][1]
            if v not in parent:
                parent[v] = ei; dq.append(v)
    rng = random.Random(a.seed)
    covered = [False] * len(E)
    # states in random order (seeded) so that a budgeted run samples differently per seed
    order = list(parent.keys()); rng.shuffle(order)
    nwalks = 0; ncov = 0
    with open(a.cases, "w") as out:
        for s in order:
            while True:
                unc = [ei for ei in adj[s] if not covered[ei]]
                if not unc: break
                if a.max_walks and nwalks >= a.max_walks: break
                # path from init to s
                path = []; x = s
                while parent[x] is not None:
                    ei = parent[x]; path.append(ei); x = E[ei][0]
                path.reverse()
                cur = s
                while len(path) < a.max_len:
                    unc = [ei for ei in adj[cur] if not covered[ei]]
                    if not unc: break
                    ei = rng.choice(unc); path.append(ei); cur = E[ei][1]
                    covered[ei] = True; ncov += 1
                for ei in path:
                    if not covered[ei]: covered[ei] = True; ncov += 1
                cmds = [E[ei][2] for ei in path] + [{"c": "finish"}]
                out.write(json.dumps({"case": f"{a.prefix}{nwalks}", "cmds": cmds}) + "\n")
                nwalks += 1
            if a.max_walks and nwalks >= a.max_walks: break
    print(json.dumps({"states": len(ids), "edges": len(E), "covered": ncov, "walks": nwalks}))

if __name__ == "__main__":
    main()
