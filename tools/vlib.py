#!/usr/bin/env python3
"""Shared machinery of the bgpfu-rs verification checks.

* building the harness (and the repository's binaries) from /repo's working tree
* running TLC: design checks, edge dumps, trace validation (in parallel chunks)
* known findings, VIOLATION / KNOWN-FINDING lines, replay files, evidence files
Exit codes used by the checks: 0 held, 1 violation (with a VIOLATION line), 2 tool error.
"""
import json, os, re, subprocess, sys, time, hashlib, shutil, tempfile, concurrent.futures

VERIF = os.path.dirname(os.path.dirname(os.path.abspath(__file__)))
SPEC = os.path.join(VERIF, "spec")
HARNESS = os.path.join(VERIF, "harness")
OUT = os.path.join(VERIF, "out")
EVID = os.path.join(VERIF, "evidence")
REPO = os.environ.get("VERIF_REPO", "/repo")
KNOWN = os.path.join(VERIF, "known_findings.json")
BIN = os.path.join(HARNESS, "target", "debug")
REPO_BIN = os.path.join(HARNESS, "target-repo", "debug")

class ToolError(Exception):
    pass

def log(*a):
    print(*a, file=sys.stderr, flush=True)

def seed():
    try:
        return int(os.environ.get("VERIF_SEED", "1"))
    except ValueError:
        return 1

def workdir(name):
    d = os.path.join(OUT, "work", name)
    shutil.rmtree(d, ignore_errors=True)
    os.makedirs(d, exist_ok=True)
    return d

# ----------------------------------------------------------------------------------------
# building

def cargo_env():
    env = dict(os.environ)
    env["CARGO_NET_OFFLINE"] = "true"
    env.pop("RUSTFLAGS", None)
    return env

def build_harness(bins=None):
    """(Re)build the harness against /repo's current working tree, hooks enabled."""
    lock = os.path.join(HARNESS, "Cargo.lock")
    if not os.path.exists(lock):
        shutil.copy(os.path.join(REPO, "Cargo.lock"), lock)
    cmd = ["cargo", "build", "--offline", "--quiet"]
    for b in bins or []:
        cmd += ["--bin", b]
    t0 = time.time()
    p = subprocess.run(cmd, cwd=HARNESS, env=cargo_env(), stdout=subprocess.PIPE, stderr=subprocess.STDOUT, text=True)
    if p.returncode != 0:
        log(p.stdout[-4000:])
        raise ToolError("harness build failed (does /repo still compile with --cfg bgpfu_verif?)")
    return time.time() - t0

def build_repo_bins():
    """Build the repository's own binaries (guard off) into the harness' target-repo dir."""
    cmd = ["cargo", "build", "--offline", "--quiet", "--manifest-path", os.path.join(REPO, "Cargo.toml"),
           "--target-dir", os.path.join(HARNESS, "target-repo"), "-p", "bgpfu-junos-agent", "-p", "bgpfu-cli"]
    p = subprocess.run(cmd, cwd=REPO, env=cargo_env(), stdout=subprocess.PIPE, stderr=subprocess.STDOUT, text=True)
    if p.returncode != 0:
        log(p.stdout[-4000:])
        raise ToolError("repository build failed")

def build_repo_bins_release():
    """... and the agent as it is shipped: the release profile of the workspace (a profile can change what a panic does,
    what an overflow does, what is compiled in).  Slow the first time; thorough tier only."""
    cmd = ["cargo", "build", "--offline", "--quiet", "--release", "--manifest-path", os.path.join(REPO, "Cargo.toml"),
           "--target-dir", os.path.join(HARNESS, "target-repo"), "-p", "bgpfu-junos-agent"]
    p = subprocess.run(cmd, cwd=REPO, env=cargo_env(), stdout=subprocess.PIPE, stderr=subprocess.STDOUT, text=True)
    if p.returncode != 0:
        log(p.stdout[-4000:])
        raise ToolError("repository release build failed")
    return os.path.join(HARNESS, "target-repo", "release", "bgpfu-junos-agent")

CLI_SHIM = "/usr/sbin/cli"
CLI_SHIM_TEXT = """#!/bin/sh
# bgpfu-rs verification shim (installed by /verif/bin/setup): stands in for the Junos `cli` binary that
# bgpfu-netconf's local transport spawns.  Outside a verification run it behaves like a missing command.
[ -n "$BGPFU_VERIF_CLI" ] || { echo "cli: command not found" >&2; exit 127; }
exec $BGPFU_VERIF_CLI
"""

def ensure_cli_shim():
    """The agent's `local` target and Session::junos_local() spawn the fixed path /usr/sbin/cli.  Install a shim there
    (only if nothing else owns the path) so that the real spawn code is exercised; returns whether it is in place."""
    try:
        if os.path.exists(CLI_SHIM):
            return "bgpfu-rs verification shim" in open(CLI_SHIM, errors="replace").read(400)
        with open(CLI_SHIM, "w") as f:
            f.write(CLI_SHIM_TEXT)
        os.chmod(CLI_SHIM, 0o755)
        return True
    except OSError:
        return False

# ----------------------------------------------------------------------------------------
# TLC

TLC_JAR = "/opt/veriftools/tla/tla2tools.jar"

def _tlc_cmd(module, cfg, workers, extra=()):
    return ["tlc", "-workers", str(workers), "-noGenerateSpecTE", "-cleanup", "-config", cfg] + list(extra) + [module]

def run_tlc(module, cfg_text, name, workers=8, timeout=600, env_extra=None, java_opts=None, extra=()):
    """Run TLC on spec/<module>.tla with the given cfg text.  Returns a dict with
    generated/distinct state counts, the violated invariant (if any) and the output path."""
    wd = workdir("tlc-" + name)
    cfg = os.path.join(wd, name + ".cfg")
    with open(cfg, "w") as f:
        f.write(cfg_text)
    outp = os.path.join(wd, "tlc.out")
    env = dict(os.environ)
    if env_extra:
        env.update(env_extra)
    if java_opts:
        env["JAVA_TOOL_OPTIONS"] = java_opts
    cmd = _tlc_cmd(os.path.join(SPEC, module + ".tla"), cfg, workers, ["-metadir", os.path.join(wd, "meta")] + list(extra))
    t0 = time.time()
    with open(outp, "w") as o:
        try:
            p = subprocess.run(cmd, cwd=SPEC, env=env, stdout=o, stderr=subprocess.STDOUT, timeout=timeout)
            rc = p.returncode
        except subprocess.TimeoutExpired:
            raise ToolError(f"TLC timed out on {module}/{name}")
    res = {"module": module, "name": name, "out": outp, "rc": rc, "wall_s": round(time.time() - t0, 1),
           "generated": 0, "distinct": 0, "violated": None, "depth": 0, "error": None}
    with open(outp, errors="replace") as f:
        for line in f:
            m = re.match(r"(\d+) states generated, (\d+) distinct states found", line)
            if m:
                res["generated"], res["distinct"] = int(m.group(1)), int(m.group(2))
            m = re.match(r"Error: Invariant (\S+) is violated", line)
            if m:
                res["violated"] = m.group(1)
            m = re.match(r"Error: Temporal properties were violated", line)
            if m:
                res["violated"] = "temporal"
            m = re.match(r"The depth of the complete state graph search is (\d+)", line)
            if m:
                res["depth"] = int(m.group(1))
            if line.startswith("Error:") and res["error"] is None and "Invariant" not in line \
                    and "behavior up to this point" not in line and "Temporal properties" not in line:
                res["error"] = line.strip()
    if res["error"] and not res["violated"]:
        raise ToolError(f"TLC error in {module}/{name}: {res['error']} (see {outp})")
    if res["distinct"] == 0 and not res["violated"]:
        raise ToolError(f"TLC produced no states for {module}/{name} (see {outp})")
    return res

def tlc_counterexample(outp, fields=None, maxlen=60000):
    """Return the textual counterexample of a TLC run (trimmed)."""
    txt = open(outp, errors="replace").read()
    k = txt.find("Error: The behavior up to this point is:")
    if k < 0:
        k = txt.find("Error:")
    return txt[k:k + maxlen]

def cfg(spec="Spec", constants=None, invariants=(), properties=(), extra_lines=()):
    lines = [f"SPECIFICATION {spec}"]
    if constants:
        lines.append("CONSTANTS")
        for k, v in constants.items():
            lines.append(f"  {k} = {v}")
    for i in invariants:
        lines.append(f"INVARIANT {i}")
    for p in properties:
        lines.append(f"PROPERTY {p}")
    lines += list(extra_lines)
    lines.append("CHECK_DEADLOCK FALSE")
    return "\n".join(lines) + "\n"

def tla_set(xs):
    return "{" + ", ".join(json.dumps(x) for x in xs) + "}"

def tla_bool(b):
    return "TRUE" if b else "FALSE"

# ----------------------------------------------------------------------------------------
# trace validation

TRACE_JAVA = "-Xss1g -Xmx3g -Dtlc2.tool.queue.IStateQueue=StateDeque"

def split_trace(path, nchunks, wd, independent=False):
    """Split an ndjson trace at `reset` boundaries (or anywhere, if every line stands for itself)
    into at most nchunks files."""
    with open(path) as f:
        lines = f.readlines()
    if not lines:
        raise ToolError(f"trace {path} is empty")
    starts = list(range(len(lines))) if independent else [i for i, l in enumerate(lines) if '"ev":"reset"' in l]
    if not starts:
        raise ToolError(f"trace {path} has no reset events")
    per = max(1, (len(lines) + nchunks - 1) // nchunks)
    chunks, cur, begin = [], 0, 0
    bounds = []
    target = per
    for s in starts[1:] + [len(lines)]:
        if s >= target or s == len(lines):
            bounds.append((begin, s)); begin = s; target = s + per
    bounds = [b for b in bounds if b[1] > b[0]]
    for k, (a, b) in enumerate(bounds):
        p = os.path.join(wd, f"chunk{k}.ndjson")
        with open(p, "w") as f:
            f.writelines(lines[a:b])
        chunks.append((p, b - a))
    return chunks, len(lines)

def _validate_chunk(args):
    module, cfgpath, chunk, nlines, prop, wd, k, extra_env = args
    env = dict(os.environ)
    env.update({"TRACE": chunk, "PROP": prop, "JAVA_TOOL_OPTIONS": TRACE_JAVA})
    env.update(extra_env or {})
    outp = os.path.join(wd, f"validate{k}.out")
    cmd = _tlc_cmd(os.path.join(SPEC, module + ".tla"), cfgpath, 1, ["-metadir", os.path.join(wd, f"meta{k}")])
    with open(outp, "w") as o:
        try:
            p = subprocess.run(cmd, cwd=SPEC, env=env, stdout=o, stderr=subprocess.STDOUT, timeout=3000)
        except subprocess.TimeoutExpired:
            return {"error": f"trace validation timed out ({outp})"}
    result, err, inv = None, None, None
    with open(outp, errors="replace") as f:
        for line in f:
            if line.startswith('<<"TRACE-RESULT", '):
                body = line.strip()[len('<<"TRACE-RESULT", '):-2]
                result = json.loads(json.loads(body))
            m = re.match(r"Error: Invariant (\S+) is violated", line)
            if m:
                inv = m.group(1)
            elif line.startswith("Error:") and err is None and "behavior up to" not in line:
                err = line.strip()
    if inv:
        return {"invariant": inv, "out": outp}
    if result is None or err:
        return {"error": f"trace validation failed: {err or 'no TRACE-RESULT'} ({outp})"}
    if result["lines"] != nlines:
        return {"error": f"trace validation consumed {result['lines']} of {nlines} lines ({outp})"}
    return {"result": result, "out": outp}

def validate_trace(module, trace, prop, name, cfg_text, nchunks=8, extra_env=None, independent=False):
    """Validate an ndjson trace with spec/<module>.tla (a monitor-style trace spec).  Returns
    merged stats and the list of violation records."""
    wd = workdir("val-" + name)
    cfgpath = os.path.join(wd, "trace.cfg")
    with open(cfgpath, "w") as f:
        f.write(cfg_text)
    chunks, total = split_trace(trace, nchunks, wd, independent)
    jobs = [(module, cfgpath, c, n, prop, wd, k, extra_env) for k, (c, n) in enumerate(chunks)]
    stats, viols = {}, []
    with concurrent.futures.ThreadPoolExecutor(max_workers=min(len(jobs), nchunks)) as ex:
        for r in ex.map(_validate_chunk, jobs):
            if "error" in r:
                raise ToolError(r["error"])
            if "invariant" in r:
                viols.append({"rule": "TraceInvariant:" + r["invariant"], "disc": "model invariant broken on a recorded run",
                              "case": "?", "seq": 0, "n": 1, "prop": prop, "tlc_out": r["out"]})
                continue
            res = r["result"]
            for k, v in res["stats"].items():
                if isinstance(v, int):
                    stats[k] = stats.get(k, 0) + v
                elif v and not stats.get(k):
                    stats[k] = v
            viols += res["viol"]
    # merge violation records of the chunks by (rule, disc)
    merged = {}
    for v in viols:
        key = (v["rule"], v["disc"])
        if key in merged:
            merged[key]["n"] += v.get("n", 1)
        else:
            merged[key] = dict(v)
    stats["lines"] = total
    return stats, list(merged.values())

# ----------------------------------------------------------------------------------------
# cases / replay files

def load_cases(path):
    d = {}
    with open(path) as f:
        for line in f:
            line = line.strip()
            if line:
                v = json.loads(line)
                d[v["case"]] = v
    return d

def trace_slice(path, case, limit=400):
    out = []
    with open(path) as f:
        for line in f:
            if f'"case":"{case}"' in line:
                out.append(json.loads(line))
                if len(out) >= limit:
                    break
    return out

def write_replay(prop, rule, disc, payload):
    os.makedirs(os.path.join(OUT, "replay"), exist_ok=True)
    h = hashlib.sha1((rule + "|" + disc).encode()).hexdigest()[:10]
    p = os.path.join(OUT, "replay", f"{prop}-{re.sub(r'[^A-Za-z0-9]+', '_', rule)}-{h}.json")
    with open(p, "w") as f:
        json.dump(payload, f, indent=1)
    return p

# ----------------------------------------------------------------------------------------
# known findings, verdict, evidence

def load_known():
    if not os.path.exists(KNOWN):
        return []
    return json.load(open(KNOWN)).get("findings", [])

class Verdict:
    """Collects violations of one check run, matches them against known_findings.json and
    prints the VIOLATION / KNOWN-FINDING lines."""
    def __init__(self, prop):
        self.prop = prop
        self.violations = []      # dicts with rule, disc, replay
        self.known_hits = []
        self.known = [k for k in load_known() if k["property"] == prop and k.get("status") == "open"]

    def report(self, rule, disc, replay_payload, detail=""):
        for k in self.known:
            if k["rule"] == rule and (k["disc"] == disc or (k.get("disc_prefix") and disc.startswith(k["disc_prefix"]))):
                if (rule, k["disc"]) not in [(h["rule"], h["disc"]) for h in self.known_hits]:
                    self.known_hits.append({"rule": rule, "disc": k["disc"], "what": k.get("what", "")})
                    print(f"KNOWN-FINDING: property={self.prop} {rule} {disc} -- {k.get('what', '')}", flush=True)
                return False
        if (rule, disc) in [(v["rule"], v["disc"]) for v in self.violations]:
            return True
        path = write_replay(self.prop, rule, disc, replay_payload)
        self.violations.append({"rule": rule, "disc": disc, "replay": path})
        print(f"VIOLATION property={self.prop} replay={path}", flush=True)
        if detail:
            print(f"  rule={rule} disc={disc} {detail}", flush=True)
        else:
            print(f"  rule={rule} disc={disc}", flush=True)
        return True

    def exit_code(self):
        return 1 if self.violations else 0

def write_evidence(prop, tier, level, coverage, assumptions, wall_s, violations):
    os.makedirs(EVID, exist_ok=True)
    ev = {"property_id": prop, "tier": tier, "seed": seed(), "level": level, "coverage": coverage,
          "assumptions": assumptions, "wall_s": round(wall_s, 1), "violations": violations}
    p = os.path.join(EVID, f"{prop}.json")
    with open(p, "w") as f:
        json.dump(ev, f, indent=1)
    return p

def run_harness(binary, args, stdout_path, timeout=3000, env_extra=None, cwd=None):
    env = dict(os.environ)
    if env_extra:
        env.update(env_extra)
    with open(stdout_path, "w") as o:
        try:
            p = subprocess.run([os.path.join(BIN, binary)] + [str(a) for a in args], stdout=o,
                               stderr=subprocess.PIPE, timeout=timeout, env=env, cwd=cwd, text=True)
        except subprocess.TimeoutExpired:
            raise ToolError(f"harness {binary} {args} timed out")
    if p.returncode != 0:
        raise ToolError(f"harness {binary} {args} failed rc={p.returncode}: {p.stderr[-2000:]}")
    return p
