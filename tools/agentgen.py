#!/usr/bin/env python3
"""Concretises the abstract cases of spec/AgentGen.tla into scenarios for harness/bin/agentrun:
policy names, prefixes, IRR objects, router configuration, and - per run - what was constructed
(`expect`), which spec/AgentTrace.tla evaluates the contracts against."""
import json, random

ATOM = {"a": ["10.0.0.0/10"], "b": ["10.64.0.0/10"], "d": ["10.192.0.0/10"], "c": ["2001:db8:8000::/33"],
        "r9": ["10.0.0.0/9", "10.128.0.0/9"],
        "r11": ["10.%d.0.0/11" % (32 * k) for k in range(8)],
        "h11": ["10.%d.0.0/11" % (32 * k) for k in range(4)],
        "r33": ["2001:db8::/33", "2001:db8:8000::/33"]}

def prefixes(xs):
    out = []
    for x in xs:
        for p in ATOM[x]:
            if p not in out:
                out.append(p)
    return out
JCMD = "http://yang.juniper.net/junos/jcmd"

def stmt(name, comment=None, active=None, body="reject", order="comment-first", dupxmlns=False, extra=False, nspfx="jcmd"):
    # the prefix the namespace of the two attributes is bound to is the router's choice: "jcmd" as Junos writes it,
    # another one, or two prefixes for the one namespace (comment under one, active under the other)
    pc, pa = {"jcmd": ("jcmd", "jcmd"), "other": ("j", "j"), "two": ("jcmd", "cmd")}[nspfx]
    attrs = [[f"xmlns:{pc}", JCMD]] + ([[f"xmlns:{pa}", JCMD]] if pa != pc else [])
    a = []
    if comment is not None:
        a.append([f"{pc}:comment", comment])
    if active is not None:
        a.append([f"{pa}:active", active])
    if order == "active-first":
        a.reverse()
    attrs += a
    if dupxmlns:
        attrs.append([f"xmlns:{pc}", JCMD])
    if extra:
        attrs.append(["junos:changed-seconds", "1709120869"])
    return {"name": name, "attrs": attrs, "body": body}

def installed(name, v4, v6):
    terms = []
    flt = lambda xs: [f"{p} /{p.split('/')[1]}-/{p.split('/')[1]}" for p in prefixes(xs)]
    if v4:
        terms.append({"name": "inet", "family": "inet", "accept": True, "filters": flt(v4)})
    if v6:
        terms.append({"name": "inet6", "family": "inet6", "accept": True, "filters": flt(v6)})
    return {"name": name, "reject": True, "terms": terms}

def exp(sel=True, marked=True, ev="ok", v4=(), v6=(), expr="", why=""):
    return {"sel": sel, "marked": marked, "eval": ev, "v4": prefixes(v4), "v6": prefixes(v6),
            "expr": expr, "why": why}

class Irr:
    count = 0
    def __init__(self):
        self.db = {"as_sets": {}, "routes4": {}, "routes6": {}, "errors": {}, "filter_sets": {}, "route_sets": {}}
        self.n = 0
        # every fifth IRR database of a generation answers in pieces of a few bytes, every seventh with padded answers
        Irr.count += 1
        if Irr.count % 5 == 0:
            self.db["dribble"] = [1, 3, 7, 50][(Irr.count // 5) % 4]
        if Irr.count % 7 == 0:
            self.db["pad"] = 5000
    def asset_with(self, v4, v6):
        """a fresh as-set whose (nested) members originate exactly these atoms"""
        self.n += 1
        name, asn = f"AS-P{self.n}", f"AS{64512 + self.n}"
        inner = f"AS-P{self.n}:AS-IN"
        # nested and cyclic membership, a member without routes
        self.db["as_sets"][name] = [inner, f"AS{4200000000 + self.n}"]
        self.db["as_sets"][inner] = [asn, name]
        self.db["routes4"][asn] = prefixes(v4)
        self.db["routes6"][asn] = prefixes(v6)
        return name

# ---------------------------------------------------------------------------------------------
def hist_scenarios(histories, per_scenario, prop, rng, small=0):
    """C01/C02: pack many independent policy histories into one router; last run repeated.
    `small` additional routers carry only one or two policies, so that conditions on the whole
    set (nothing managed any more, nothing to do) occur as well."""
    out = []
    hs = list(histories)
    chunks = [hs[s:s + per_scenario] for s in range(0, len(hs), per_scenario)]
    # histories in which a policy that had something installed stops being managed
    ending = [h for h in hs if not h[-1]["marked"] and any(st["marked"] and (st["v4"] or st["v6"]) for st in h[:-1])]
    for k in range(small):
        pool = ending if (k % 2 == 0 and ending) else hs
        chunks.append(rng.sample(pool, min(len(pool), 1 + (k // 2) % 2)))
    base = 0
    for ci, chunk in enumerate(chunks):
        s = base; base += len(chunk)
        depth = len(chunk[0])
        runs = []
        for k in range(depth + 1):
            kk = min(k, depth - 1)              # the last run is repeated with unchanged inputs
            irr = Irr(); running = []; policies = {}
            for i, h in enumerate(chunk):
                st = h[kk]; name = f"pol-{s + i}"
                if st["marked"]:
                    if (s + i) % 5 == 0 and (st["v4"] or st["v6"]):
                        # literal prefix-set expression instead of an as-set
                        lit = ", ".join(prefixes(list(st["v4"]) + list(st["v6"])))
                        expr, disp = "{ " + lit + " }", "{" + lit + "}"
                    else:
                        expr = irr.asset_with(st["v4"], st["v6"]); disp = expr
                    running.append(stmt(name, f"/* bgpfu-fltr: {expr} */"))
                    policies[name] = exp(True, True, "ok", st["v4"], st["v6"], disp, "history")
                else:
                    if (s + i) % 2 == 0:
                        running.append(stmt(name, "/* no longer managed */"))
                    policies[name] = exp(False, False, "none", why="unmarked")
            # on every second router: policies whose evaluation meets IRR errors that the evaluator sinks by design (the
            # route queries of one member AS answered F / E): they are installed with what the other members originate,
            # and whatever the evaluator remembers of those errors must not touch the policies evaluated after them
            # (the routers with one or two policies take turns: such policies / one that fails / nothing else - only there can
            # a run consist of removals alone)
            extra = ci % 3 if len(chunk) <= 2 else (s // max(1, per_scenario)) % 2
            if extra == 0:
                for j in range(3):
                    name = f"noisy-{j}"
                    expr = irr.asset_with(["a", "b"] if j % 2 == 0 else ["d"], ["c"])
                    asn_bad = f"AS{64900 + j}"
                    irr.db["as_sets"][expr].append(asn_bad)
                    irr.db["routes4"][asn_bad] = prefixes(["r9"]); irr.db["routes6"][asn_bad] = []
                    irr.db["errors"][f"!g{asn_bad}"] = ["F", "E", "F"][j]; irr.db["errors"][f"!6{asn_bad}"] = ["F", "E", "F"][j]
                    running.append(stmt(name, f"/* bgpfu-fltr: {expr} */"))
                    policies[name] = exp(True, True, "ok", ["a", "b"] if j % 2 == 0 else ["d"], ["c"], expr, "one member's route queries answered with an error (sunk)")
            elif extra == 1:
                # on the other routers: one policy whose evaluation fails in every run (a run with a failed evaluation is
                # still a run in which every other policy gets exactly what it evaluates to)
                bexpr, bev = bad_policy(irr, ["unknown-as-set", "error-F"][(s // max(1, per_scenario)) % 2], "-HIST")
                running.append(stmt("broken", f"/* bgpfu-fltr: {bexpr} */"))
                policies["broken"] = exp(True, True, bev, why="cannot be evaluated, next to the histories")
            runs.append({"running": running, "irr": irr.db, "faults": [], "repeat": k == depth,
                         "expect": {"prop": prop, "c16": False, "policies": policies}})
        out.append({"case": f"{prop}-h{s}", "instance": "bgpfu", "eph0": [], "runs": runs, "meta": {"family": "hist", "policies": len(chunk)}})
    return out

def fault_scenarios(cases, prop):
    out = []
    for k, c in enumerate(cases):
        irr = Irr(); running = []; policies = {}
        for i in range(c["n"]):
            name = f"pol-{i}"; expr = irr.asset_with(["a", "r11"][: 1 + i % 2], ["c"] if i % 2 else [])
            running.append(stmt(name, f"/* bgpfu-fltr: {expr} */"))
            policies[name] = exp(True, True, "ok", ["a", "r11"][: 1 + i % 2], ["c"] if i % 2 else [], expr, "fault-case")
        faults = [] if c["target"] == "none" else [{"target": c["target"], "index": c["index"], "kind": c["kind"]}]
        # every third scenario: the run has removals as well (policies that are installed and no longer managed), so that
        # its loads are of two kinds; the numbered load of the fault may then be either
        eph0 = []
        if k % 3 == 1:
            for j in range(1 + k % 2):
                eph0.append(installed(f"stale-{j}", ["d"], ["c"]))
                policies[f"stale-{j}"] = exp(False, False, "none", why="unmarked")
        out.append({"case": f"{prop}-f{k}", "instance": "bgpfu-inst", "eph0": eph0,
                    "runs": [{"running": running, "irr": irr.db, "faults": faults, "repeat": False,
                              "expect": {"prop": prop, "c16": False, "policies": policies}}],
                    "meta": dict(c, family="fault")})
    return out

def c02_fault_scenarios(prop):
    """C02 when the router says no: policies that are installed and change in one family only (what the agent sends for
    them is a patch relative to what it fetched), and the router refuses the open of the instance / one of the loads.
    Whatever the agent does next, every payload it sends is judged on the state it meets, and nothing is written to
    another instance."""
    out = []; k = 0
    kinds = ["rpc-error", "tag:resource-denied", "error+warning", "tag:in-use"]
    for target, index in [("open", 0), ("load", 1), ("load", 2), ("load", 3)]:
        for kind in kinds:
            irr = Irr(); running = []; policies = {}; eph0 = []
            for i, (inst, tgt) in enumerate([((["a"], ["c"]), (["a", "b"], ["c"])), ((["a", "b"], ["c"]), (["a", "b"], [])), ((["r9"], ["c"]), (["r9", "a"], ["c"]))]):
                name = f"inst-{i}"; expr = irr.asset_with(*tgt)
                eph0.append(installed(name, *inst))
                running.append(stmt(name, f"/* bgpfu-fltr: {expr} */"))
                policies[name] = exp(True, True, "ok", tgt[0], tgt[1], expr, f"installed, one family changes; {kind} at {target} {index}")
            out.append({"case": f"{prop}-rf{k}", "instance": "bgpfu-inst", "eph0": eph0,
                        "runs": [{"running": running, "irr": irr.db, "faults": [{"target": target, "index": index, "kind": kind}], "repeat": False,
                                  "expect": {"prop": prop, "c16": False, "policies": policies}}],
                        "meta": {"family": "refused", "target": target, "index": index, "kind": kind}})
            k += 1
    return out

BAD = {"sunk-then-fail": ("AS{asn} AND AS-MISSING{k}", "sunk"), "unknown-as-set": ("AS-MISSING{k}", None), "error-E": ("AS-ERR{k}", "E"), "error-F": ("AS-ERR{k}", "F"),
       # the unsupported construct is not in the policy's own expression but in the filter-set it names
       "fset-regex": ("FLTR-UNSUP-RE{k}", "fset:<^AS65001 .* AS65002$>"), "fset-peeras": ("FLTR-UNSUP-PA{k} OR AS-NOBODY{k}", "fset:PeerAS"),
       "fset-attr": ("FLTR-UNSUP-AT{k}", "fset:community(65000:1)"),
       "peeras": ("PeerAS", None), "aspath-regex": ("<^AS65000 .* AS65001$>", None), "attr-match": ("community(65000:1)", None)}

def bad_policy(irr, cls, k):
    """(expression, eval class) of a policy that cannot be evaluated"""
    t, err = BAD[cls]
    if err == "sunk":
        # the route queries of this AS are answered with an error the evaluator sinks; the as-set is unknown
        irr.n += 1
        asn = 64000 + irr.n
        irr.db["errors"][f"!gAS{asn}"] = "F"; irr.db["errors"][f"!6AS{asn}"] = "F"
        return t.format(asn=asn, k=k), "fail"
    expr = t.format(k=k)
    if err and err.startswith("fset:"):
        irr.db["filter_sets"][expr.split()[0]] = err[5:]
        return expr, "unsup"
    if err:
        irr.db["errors"][f"!i{expr},1"] = err
    return expr, ("unsup" if cls in ("peeras", "aspath-regex", "attr-match") else "fail")

def c03_scenarios(cases, prop):
    out = []
    # all cases side by side on one router plus control policies; and one scenario per unreachable-IRR mode
    irr = Irr(); running = []; policies = {}; eph0 = []
    for k, c in enumerate(cases):
        name = f"bad-{k}"
        if c["installed"]:
            eph0.append(installed(name, [], []) if c.get("empty") else installed(name, ["a"], ["c"]))
        if c["class"] == "malformed-annotation":
            running.append(stmt(name, "/* bgpfu-fltr: error! */"))
            policies[name] = exp(False, True, "none", why="malformed-annotation installed=%s" % c["installed"])
        else:
            expr, ev = bad_policy(irr, c["class"], k)
            running.append(stmt(name, f"/* bgpfu-fltr: {expr} */"))
            policies[name] = exp(True, True, ev, why=f"{c['class']} installed={c['installed']}" + (" without prefixes" if c.get("empty") else ""))
    # several installed policies whose expressions share one unobtainable set (and one that mixes it with good data)
    for cls in ("unknown-as-set", "error-F"):
        sexpr, sev = bad_policy(irr, cls, f"-SHARED-{cls[:3].upper()}")
        for i in range(3):
            name = f"shared-{cls[:3]}-{i}"
            eph0.append(installed(name, ["a", "b"], ["c"]))
            running.append(stmt(name, f"/* bgpfu-fltr: {sexpr} */"))
            policies[name] = exp(True, True, sev, why=f"{cls} shared by several policies, installed=True")
    # ... share a filter-set whose stored expression can be expanded but not evaluated (it names an as-set nobody registered)
    fgood = irr.asset_with(["a", "b"], ["c"])
    irr.db["filter_sets"]["FLTR-SHARED-BAD"] = f"{fgood} AND AS-MISSING-IN-FLTR"
    for i in range(4):
        name = f"shared-flt-{i}"
        eph0.append(installed(name, ["a", "b"], ["c"]))
        running.append(stmt(name, "/* bgpfu-fltr: FLTR-SHARED-BAD */"))
        policies[name] = exp(True, True, "fail", why="filter-set over an unknown as-set, shared by several policies, installed=True")
    # ... and expressions with the unobtainable set as one operand of a top-level OR (the other operands are fine)
    og = irr.asset_with(["a"], ["c"]); og2 = irr.asset_with(["b"], [])
    irr.db["errors"]["!iAS-ERR-OR,1"] = "F"
    for i, oexpr in enumerate([f"{og} OR AS-MISSING-OR", f"AS-MISSING-OR OR {og}", f"{og} OR {og2} OR AS-ERR-OR", "AS-MISSING-OR OR AS-MISSING-OR2",
                               f"({og} OR AS-MISSING-OR) AND {og2}"]):
        name = f"or-{i}"
        eph0.append(installed(name, ["a", "b"], ["c"]))
        running.append(stmt(name, f"/* bgpfu-fltr: {oexpr} */"))
        policies[name] = exp(True, True, "fail", why="unobtainable set as an operand of OR, installed=True")
    for i in range(2):
        name = f"good-{i}"; expr = irr.asset_with(["a", "b"], [])
        running.append(stmt(name, f"/* bgpfu-fltr: {expr} */"))
        policies[name] = exp(True, True, "ok", ["a", "b"], [], expr, "control")
    eph0.append(installed("gone", ["d"], []))            # installed, no longer in the running config: must be deleted
    policies["gone"] = exp(False, False, "none", why="unmarked")
    runs = [{"running": running, "irr": irr.db, "faults": [], "repeat": r == 1,
             "expect": {"prop": prop, "c16": False, "policies": policies}} for r in range(2)]
    out.append({"case": f"{prop}-all", "instance": "bgpfu", "eph0": eph0, "runs": runs, "meta": {"family": "c03"}})
    # one scenario per case as well (so that one failing case cannot mask another)
    for k, c in enumerate(cases):
        irr = Irr(); name = f"bad-{k}"; eph = [installed(name, [], []) if c.get("empty") else installed(name, ["a"], ["c"])] if c["installed"] else []
        if c["class"] == "malformed-annotation":
            st = stmt(name, "/* bgpfu-fltr: error! */"); e = exp(False, True, "none", why="malformed-annotation installed=%s" % c["installed"])
        else:
            expr, ev = bad_policy(irr, c["class"], k)
            st = stmt(name, f"/* bgpfu-fltr: {expr} */"); e = exp(True, True, ev, why=f"{c['class']} installed={c['installed']}" + (" without prefixes" if c.get("empty") else ""))
        gexpr = irr.asset_with(["d"], ["c"])
        out.append({"case": f"{prop}-c{k}", "instance": "bgpfu", "eph0": eph,
                    "runs": [{"running": [st, stmt("good", f"/* bgpfu-fltr: {gexpr} */")], "irr": irr.db, "faults": [], "repeat": False,
                              "expect": {"prop": prop, "c16": False,
                                         "policies": {name: e, "good": exp(True, True, "ok", ["d"], ["c"], gexpr, "control")}}}],
                    "meta": dict(c, family="c03")})
    # whole-set conditions: NO policy of the run can be evaluated while others are to be removed (the plan consists of
    # removals only), and nothing at all is to be done; one and several failing policies
    for k, (nbad, nstale) in enumerate([(1, 1), (2, 2), (3, 0), (1, 3)]):
        irr = Irr(); running = []; policies = {}; eph = []
        for i in range(nbad):
            cls = ["unknown-as-set", "error-F", "peeras"][i % 3]
            expr, ev = bad_policy(irr, cls, f"-W{k}{i}")
            name = f"only-bad-{i}"
            eph.append(installed(name, ["a", "b"], ["c"]))
            running.append(stmt(name, f"/* bgpfu-fltr: {expr} */"))
            policies[name] = exp(True, True, ev, why=f"{cls} installed=True, nothing else can be evaluated")
        for i in range(nstale):
            eph.append(installed(f"stale-{i}", ["d"], []))
            policies[f"stale-{i}"] = exp(False, False, "none", why="unmarked")
        out.append({"case": f"{prop}-w{k}", "instance": "bgpfu", "eph0": eph,
                    "runs": [{"running": running, "irr": irr.db, "faults": [], "repeat": r == 1,
                              "expect": {"prop": prop, "c16": False, "policies": policies}} for r in range(2)],
                    "meta": {"family": "c03", "whole_set": f"{nbad} unevaluable, {nstale} to remove, none evaluable"}})
    # the installed state holds something the agent cannot read (a term written by an older release: name only) next
    # to a readable policy whose data cannot be obtained: whatever the agent does about the first must not cost the second
    for k, cls in enumerate(["unknown-as-set", "error-E", "aspath-regex"]):
        irr = Irr(); running = []; policies = {}
        legacy = {"name": "legacy", "reject": True, "terms": [{"name": "inet", "family": None, "accept": False, "filters": []}]}
        expr, ev = bad_policy(irr, cls, f"-U{k}")
        running.append(stmt("keep", f"/* bgpfu-fltr: {expr} */"))
        policies["keep"] = exp(True, True, ev, why=f"{cls} installed=True next to an unreadable policy")
        lexpr = irr.asset_with(["a"], [])
        running.append(stmt("legacy", f"/* bgpfu-fltr: {lexpr} */"))
        policies["legacy"] = exp(True, True, "skip", why="installed in a shape the reader refuses")
        gexpr = irr.asset_with(["d"], [])
        running.append(stmt("good", f"/* bgpfu-fltr: {gexpr} */"))
        policies["good"] = exp(True, True, "skip", why="control")
        out.append({"case": f"{prop}-u{k}", "instance": "bgpfu", "eph0": [installed("keep", ["a", "b"], ["c"]), legacy],
                    "runs": [{"running": running, "irr": irr.db, "faults": [], "repeat": False,
                              "expect": {"prop": prop, "c16": False, "foreign": True, "policies": policies}}],
                    "meta": {"family": "c03", "unreadable_installed": True, "class": cls}})
    for mode in ("refuse", "close"):
        irr = Irr(); expr = irr.asset_with(["a"], [])
        out.append({"case": f"{prop}-irr-{mode}", "instance": "bgpfu", "eph0": [installed("keep", ["a"], ["c"]), installed("gone", ["d"], [])],
                    "runs": [{"running": [stmt("keep", f"/* bgpfu-fltr: {expr} */")], "irr": irr.db, "irr_mode": mode, "faults": [], "repeat": False,
                              "expect": {"prop": prop, "c16": False,
                                         "policies": {"keep": exp(True, True, "fail", why=f"irr-{mode}"),
                                                      "gone": exp(False, False, "none", why="unmarked")}}}],
                    "meta": {"family": "c03", "irr_mode": mode}})
    return out

def c15_scenarios(cases, prop, rng):
    out = []
    # the sets without an evaluable member always take part
    cases = sorted(cases, key=lambda q: "ok" in q)
    for k, q in enumerate(cases):
        irr = Irr(); running = []; policies = {}; eph0 = []
        for i, cls in enumerate(q):
            name = f"p{i}-{cls}"
            if cls == "ok":
                v4 = rng.sample(["a", "b", "r9", "r11"], rng.randint(1, 3)); v6 = ["c"] if rng.random() < 0.5 else []
                expr = irr.asset_with(v4, v6)
                policies[name] = exp(True, True, "ok", v4, v6, expr, "ok")
                if (k + i) % 3 == 0:
                    eph0.append(installed(name, ["d"], []))         # installed with something else: has to change
            else:
                expr, ev = bad_policy(irr, cls, i)
                policies[name] = exp(True, True, ev, why=cls)
                if (k + i) % 2 == 0:
                    eph0.append(installed(name, ["a"], ["c"]))      # was evaluable once: stays as it is
            running.append(stmt(name, f"/* bgpfu-fltr: {expr} */"))
        if "ok" not in q or k % 4 == 0:
            # other work of the run: an installed policy that is not managed any more
            eph0.append(installed("gone", ["b"], []))
            running.append(stmt("gone", None))
            policies["gone"] = exp(False, False, "none", why="unmarked")
        out.append({"case": f"{prop}-q{k}", "instance": "bgpfu", "eph0": eph0,
                    "runs": [{"running": running, "irr": irr.db, "faults": [], "repeat": False,
                              "expect": {"prop": prop, "c16": False, "policies": policies}}],
                    "meta": {"family": "c15", "classes": q}})
    return out

COMMENT = {"none": None, "other": "/* unrelated comment */", "fltr": "/* bgpfu-fltr: {e} */", "fltr-nospace": "/*bgpfu-fltr:{e}*/",
           "fltr-bare": "bgpfu-fltr: {e}", "fltr-bad": "/* bgpfu-fltr: error! */", "fltr-empty": "/* bgpfu-fltr: */",
           "prefix-only-similar": "/* xbgpfu-fltr: {e} */",
           "fltr-doublestar": "/** bgpfu-fltr: {e} **/", "fltr-slashes": "// bgpfu-fltr: {e}", "fltr-unterminated": "/* bgpfu-fltr: {e}",
           "fltr-wrapped": "/* bgpfu-fltr: {e}\n     OR {w} */", "fltr-wrapped-after-op": "/* bgpfu-fltr: {e} OR\n\t{w} */",
           "fltr-wrapped-plus": "/* bgpfu-fltr: {e}\n+ OR {w} */"}
WRAPPED = ("fltr-wrapped", "fltr-wrapped-after-op", "fltr-wrapped-plus")

INACTIVE_TERM = ('<term xmlns:jcmd="http://yang.juniper.net/junos/jcmd" jcmd:active="false"><name>old</name><from><protocol>bgp</protocol></from>'
                 '<then><accept/></then></term>')
RAW_BODY = {"reject+inactive-term": "raw:<then><reject/></then>" + INACTIVE_TERM,
            "inactive-term+reject": "raw:" + INACTIVE_TERM + "<then><reject/></then>"}

def shape_scenarios(cases, prop):
    out = []
    for k, c in enumerate(cases):
        sh = c["shape"]; irr = Irr()
        e = irr.asset_with(["a"], ["c"]); ctl = irr.asset_with(["d"], [])
        com = COMMENT[sh["comment"]]
        wrapped = sh["comment"] in WRAPPED
        w = irr.asset_with(["b"], []) if wrapped else ""
        com = com.format(e=e, w=w) if com else None
        # escaped characters in names now and then, and names that begin or end with a blank (quoted names may)
        # ... and names that contain text which looks like a reference (the name IS "AT&amp;T", written "AT&amp;amp;T")
        name = {3: "shape<&>\"'", 5: f" lead-{k}", 6: f"trail-{k} ", 1: f"AT&amp;T-{k}", 2: f"pni-&#65;&lt;{k}&gt;"}.get(k % 7, f"shape-{k}")
        st = stmt(name, com, None if sh["active"] == "absent" else sh["active"], RAW_BODY.get(sh["body"], sh["body"]), sh["order"], sh["dupxmlns"], sh["extra"],
                  sh.get("nspfx", "jcmd"))
        why = " ".join(f"{a}={sh[a]}" for a in ("active", "comment", "body")) + ("" if sh.get("nspfx", "jcmd") == "jcmd" else f" prefix={sh['nspfx']}")
        pol = {name: exp(c["sel"], c["marked"], "ok" if c["sel"] else "none", (["a", "b"] if wrapped else ["a"]) if c["sel"] else [], ["c"] if c["sel"] else [],
                         (f"{e} OR {w}" if wrapped else e) if c["sel"] else "", why),
               "control": exp(True, True, "ok", ["d"], [], ctl, "control"),
               "plain": exp(False, False, "none", why="plain unannotated statement")}
        running = [stmt("control", f"/* bgpfu-fltr: {ctl} */"), st, stmt("plain", None, body="terms+reject")]
        out.append({"case": f"{prop}-s{k}", "instance": "bgpfu", "eph0": [],
                    "runs": [{"running": running, "irr": irr.db, "faults": [], "repeat": False,
                              "expect": {"prop": prop, "c16": True, "policies": pol}}],
                    "meta": dict(sh, family="shape", sel=c["sel"])})
    return out

def dupname_scenarios(prop):
    """C16: two statements that both qualify as managed carry the same name (written the same way, or differently with
    the same meaning).  Which expression the name stands for cannot be told: nothing may be installed under it."""
    out = []
    for k, (n1, n2) in enumerate([("twice", "twice"), ("a&amp;b", "a&#38;b"), ("x-1", "x-&#49;")]):
        irr = Irr()
        e1 = irr.asset_with(["a"], ["c"]); e2 = irr.asset_with(["b"], []); ctl = irr.asset_with(["d"], [])
        # the fake router writes names escaped: give it the name as it is meant (decoded) - both statements get the same
        import html
        name = html.unescape(n1)
        assert html.unescape(n2) == name
        running = [stmt("control", f"/* bgpfu-fltr: {ctl} */"), stmt(name, f"/* bgpfu-fltr: {e1} */"), stmt("between", None, body="terms+reject"),
                   stmt(name, f"/* bgpfu-fltr: {e2} */")]
        pol = {name: exp(False, True, "none", why="two managed statements with one name"),
               "control": exp(True, True, "ok", ["d"], [], ctl, "control"), "between": exp(False, False, "none", why="plain")}
        out.append({"case": f"{prop}-dup{k}", "instance": "bgpfu", "eph0": [],
                    "runs": [{"running": running, "irr": irr.db, "faults": [], "repeat": False,
                              "expect": {"prop": prop, "c16": False, "ambiguous": True, "policies": pol}}],
                    "meta": {"family": "dupname", "names": [n1, n2]}})
    return out

def shapehist_scenarios(histories, per_router, prop):
    """C16 over histories: every statement of a router follows its own history of shapes (valid annotation, another valid
    one, an annotation that does not parse, deactivated, other content, statement gone, annotation gone); the IRR data
    behind every expression changes from run to run, so that a statement which is selected always has something to
    install.  Each router is run by separate agent processes (one per run) and by ONE daemon process (-D)."""
    out = []
    T = [(["a"], ["c"]), (["b"], []), (["a", "b"], ["c"]), (["d"], ["c"])]
    hs = sorted(list(h) for h in histories)
    for s in range(0, len(hs), per_router):
        chunk = hs[s:s + per_router]; depth = len(chunk[0]); runs = []
        for r in range(depth):
            irr = Irr(); running = []; policies = {}
            for i, h in enumerate(chunk):
                name = f"sh-{s + i}"; cls = h[r]
                # the same two set names for this statement in every run, with other members every time
                e1 = irr.asset_with(*T[(i + r) % 4]); e2 = irr.asset_with(*T[(i + r + 2) % 4])
                why = "history " + ">".join(h[:r + 1])
                if cls in ("valid1", "valid2"):
                    e, t = (e1, T[(i + r) % 4]) if cls == "valid1" else (e2, T[(i + r + 2) % 4])
                    running.append(stmt(name, f"/* bgpfu-fltr: {e} */"))
                    policies[name] = exp(True, True, "ok", t[0], t[1], e, why)
                elif cls == "malformed":
                    running.append(stmt(name, f"/* bgpfu-fltr: {e1} AND */"))
                    policies[name] = exp(False, True, "none", why=why)
                elif cls == "inactive":
                    running.append(stmt(name, f"/* bgpfu-fltr: {e1} */", "false"))
                    policies[name] = exp(False, False, "none", why=why)
                elif cls == "otherbody":
                    running.append(stmt(name, f"/* bgpfu-fltr: {e1} */", body="terms+reject"))
                    policies[name] = exp(False, True, "none", why=why)
                elif cls == "plain":
                    running.append(stmt(name, None))
                    policies[name] = exp(False, False, "none", why=why)
                else:
                    policies[name] = exp(False, False, "none", why=why)
            runs.append({"running": running, "irr": irr.db, "faults": [], "repeat": False,
                         "expect": {"prop": prop, "c16": True, "policies": policies}})
        sc = {"case": f"{prop}-sh{s}", "instance": "bgpfu", "eph0": [], "runs": runs, "meta": {"family": "shapehist", "statements": len(chunk)}}
        out.append(sc)
        out += daemon_twins([sc], 1)
    return out

def style_scenarios(style_sets, prop):
    """C13 for configuration data: one router with installed policies that have to grow, shrink, lose a
    family, stay, go away and appear; run once with the router's plain serialisation and once more
    (twin: same start state, same inputs) with every reply re-serialised in the given style."""
    out = []
    for k, flags in enumerate(sorted(sorted(f) for f in style_sets)):
        irr = Irr(); running = []; policies = {}; eph0 = []
        plan = [("grow", (["a"], ["c"]), (["a", "b"], ["c"])), ("shrink", (["a", "b"], ["c"]), (["a"], [])),
                ("same", (["r11"], []), (["r11"], [])), ("new", None, (["d"], ["c"])),
                ("odd<&>name'\"", (["b"], []), (["b", "d"], [])), ("v6only", ([], ["c"]), (["a"], ["c"]))]
        for name, inst, tgt in plan:
            if inst:
                eph0.append(installed(name, *inst))
            expr = irr.asset_with(*tgt)
            running.append(stmt(name, f"/* bgpfu-fltr: {expr} */"))
            policies[name] = exp(True, True, "ok", tgt[0], tgt[1], expr, "style")
        eph0.append(installed("gone", ["d"], []))
        running.append(stmt("gone", "/* no longer managed */"))
        policies["gone"] = exp(False, False, "none", why="unmarked")
        running.append(stmt("plain", None, body="terms+reject"))
        policies["plain"] = exp(False, False, "none", why="plain unannotated statement")
        run = lambda twin: {"running": running, "irr": irr.db, "faults": [], "repeat": False, "twin": twin,
                            "expect": {"prop": prop if twin else "C01", "c16": False, "policies": policies}}
        plain, styled = run(False), run(True)
        styled["style"] = list(flags)
        out.append({"case": f"{prop}-y{k}", "instance": "bgpfu", "eph0": eph0, "runs": [plain, styled],
                    "meta": {"family": "style", "style": "+".join(flags)}})
    return out

def garble_scenarios(cases, prop):
    """C14 for the agent: one damaged reply per run; installed policies present so that the
    configuration readers have something to read."""
    out = []
    seen = set()
    for k, c in enumerate(sorted(cases, key=lambda c: (c["target"], c["kind"], c["index"]))):
        if c["target"] != "load" and (c["target"], c["kind"]) in seen:
            continue
        seen.add((c["target"], c["kind"]))
        irr = Irr(); running = []; policies = {}; eph0 = []
        for name, inst, tgt in [("p-grow", (["a"], ["c"]), (["a", "b"], ["c"])), ("p-new", None, (["d"], [])), ("p-same", (["r11"], []), (["r11"], []))]:
            if inst:
                eph0.append(installed(name, *inst))
            expr = irr.asset_with(*tgt)
            running.append(stmt(name, f"/* bgpfu-fltr: {expr} */"))
            policies[name] = exp(True, True, "ok", tgt[0], tgt[1], expr, "garble")
        out.append({"case": f"{prop}-g{k}", "instance": "bgpfu", "eph0": eph0,
                    "runs": [{"running": running, "irr": irr.db, "faults": [dict(c)], "repeat": False,
                              "expect": {"prop": prop, "c16": False, "policies": policies, "garble": c["target"] + " " + c["kind"]}}],
                    "meta": dict(c, family="garble")})
    return out

def foreign_scenarios(cases, prop):
    """C02 'for all installed states': the ephemeral instance holds a policy of a shape the agent did not
    write; whatever the agent does about it, each update applied to that state must satisfy C02."""
    out = []
    flt = lambda xs: [f"{p} /{p.split('/')[1]}-/{p.split('/')[1]}" for p in prefixes(xs)]
    for k, c in enumerate(sorted(cases, key=lambda c: (c["shape"], c["target"]))):
        sh = c["shape"]; name = "foreign"
        pol = installed(name, ["a", "b"], ["c"])
        if sh == "extra-term-other-family":
            pol["terms"].append({"name": "inet-vpn", "family": "inet-vpn", "accept": True, "filters": []})
        elif sh == "extra-term-no-from":
            pol["terms"].append({"name": "rest", "family": None, "accept": True, "filters": []})
        elif sh == "term-named-differently":
            pol["terms"][0]["name"] = "v4"
        elif sh == "term-without-family":
            pol["terms"][0]["family"] = None
        elif sh == "two-terms-one-family":
            pol["terms"].append({"name": "inet-2", "family": "inet", "accept": True, "filters": flt(["d"])})
        elif sh == "no-trailing-reject":
            pol["reject"] = False
        elif sh == "no-trailing-reject-extra-filters":
            pol["reject"] = False; pol["terms"][0]["filters"] = flt(["a", "b", "d"])
        elif sh == "term-without-then":
            pol["terms"][0]["accept"] = False
        elif sh == "reject-only":
            pol["terms"] = []
        elif sh == "term-without-filters":
            pol["terms"][0]["filters"] = []          # `from family inet; then accept`: every IPv4 route
        elif sh == "both-terms-without-filters":
            for t in pol["terms"]:
                t["filters"] = []
        elif sh in ("exact-filter", "orlonger-filter", "upto-filter"):
            # a range the targets never ask for, written with a match type the agent itself never writes
            kind = {"exact-filter": "exact", "orlonger-filter": "orlonger", "upto-filter": "upto /11"}[sh]
            pol["terms"][0]["filters"] = flt(["a", "b"]) + [f"{ATOM['d'][0]} {kind}"]
        irr = Irr(); running = []; policies = {}
        tgt = {"same": (["a", "b"], ["c"]), "other": (["a"], []), "empty": ([], [])}.get(c["target"])
        if tgt is not None:
            expr = irr.asset_with(*tgt)
            running.append(stmt(name, f"/* bgpfu-fltr: {expr} */"))
            policies[name] = exp(True, True, "ok", tgt[0], tgt[1], expr, f"foreign {sh}")
        else:
            running.append(stmt(name, "/* no longer managed */"))
            policies[name] = exp(False, False, "none", why="unmarked")
        cexpr = irr.asset_with(["d"], [])
        running.append(stmt("control", f"/* bgpfu-fltr: {cexpr} */"))
        policies["control"] = exp(True, True, "ok", ["d"], [], cexpr, "control")
        out.append({"case": f"{prop}-x{k}", "instance": "bgpfu", "eph0": [pol],
                    "runs": [{"running": running, "irr": irr.db, "faults": [], "repeat": False,
                              "expect": {"prop": prop, "c16": False, "foreign": True, "policies": policies}}],
                    "meta": dict(c, family="foreign")})
    return out

def daemon_scenarios(prop):
    """C01 'all sequences of consecutive runs', in daemon mode: one agent process runs the job several times;
    between runs the router may lose its ephemeral data (reboot).  Nothing the process remembers from an
    earlier run may stand in for reading the router again."""
    out = []
    for k, (sessions, reset_before, eph_has) in enumerate([(3, [3], False), (3, [2], True), (3, [], False), (4, [2, 4], False)]):
        irr = Irr(); running = []; policies = {}; eph0 = []
        for name, tgt in [("d-both", (["a", "b"], ["c"])), ("d-v4", (["r11"], [])), ("d-empty", ([], []))]:
            expr = irr.asset_with(*tgt)
            running.append(stmt(name, f"/* bgpfu-fltr: {expr} */"))
            policies[name] = exp(True, True, "ok", tgt[0], tgt[1], expr, "daemon")
            if eph_has and (tgt[0] or tgt[1]):
                eph0.append(installed(name, ["a"], []))
        out.append({"case": f"{prop}-dm{k}", "instance": "bgpfu", "eph0": eph0,
                    "daemon": {"period": 1, "sessions": sessions, "reset_before": reset_before},
                    "runs": [{"running": running, "irr": irr.db, "faults": [], "repeat": False,
                              "expect": {"prop": prop, "c16": False, "policies": policies}}],
                    "meta": {"family": "daemon", "sessions": sessions, "reset_before": reset_before}})
    return out

TRICKY_NAMES = ["AT&amp;T-in", "&lt;peer&gt;-in", "&#65;S65000-in", "a&amp;amp;b", "R&D; lab", "x]]>y", "quote\"s'", "caf\u00e9-\u6f22", "sl/ash\\back",
                "trailing-dot.", "-leading-dash", "100%", "{brace}[bracket]", "tab\there", "semi;colon", "#hash", "UPPER-lower", "p" * 200]

def name_scenarios(prop):
    """C10 at the level of the agent (policy names and comments travel from the router's configuration through the agent
    into its requests): names containing text that looks like an entity or character reference, the delimiter, quotes,
    non-ASCII text, 200 characters.  Each policy is created, changed and removed - by exactly its name."""
    runs = []
    for k in range(4):
        irr = Irr(); running = []; policies = {}
        for i, name in enumerate(TRICKY_NAMES):
            if k == 2 or (k == 3):
                running.append(stmt(name, "/* no longer managed */"))
                policies[name] = exp(False, False, "none", why="unmarked")
            else:
                tgt = (["a"], ["c"]) if (k + i) % 2 == 0 else (["a", "b"], [])
                expr = irr.asset_with(*tgt)
                running.append(stmt(name, f"/* bgpfu-fltr: {expr} */"))
                policies[name] = exp(True, True, "ok", tgt[0], tgt[1], expr, "tricky name")
        runs.append({"running": running, "irr": irr.db, "faults": [], "repeat": k == 3,
                     "expect": {"prop": prop, "c16": True, "policies": policies}})
    return [{"case": f"{prop}-names", "instance": "bgpfu", "eph0": [], "runs": runs, "meta": {"family": "names"}}]

def boundary_scenarios(prop):
    """Boundary values of the prefix space: the default route, everything up to /24 (/48), host routes, ranges that reach
    the longest length.  They lie outside the denotation universes, so the scenario states the expected route-filters
    literally; each policy takes a turn at every value, then empties."""
    v4 = [("{0.0.0.0/0}", ["0.0.0.0/0 /0-/0"]), ("{0.0.0.0/0^0-24}", ["0.0.0.0/0 /0-/24"]), ("{192.0.2.1/32}", ["192.0.2.1/32 /32-/32"]),
          ("{198.51.100.0/24^+}", ["198.51.100.0/24 /24-/32"]), ("{0.0.0.0/0^0-24, 192.0.2.1/32}", ["0.0.0.0/0 /0-/24", "192.0.2.1/32 /32-/32"])]
    v6 = [("{::/0}", ["::/0 /0-/0"]), ("{::/0^0-48}", ["::/0 /0-/48"]), ("{2001:db8::1/128}", ["2001:db8::1/128 /128-/128"]),
          ("{2001:db8:ff00::/40^+}", ["2001:db8:ff00::/40 /40-/128"])]
    steps = max(len(v4), len(v6)) + 1
    runs = []
    for k in range(steps + 1):
        kk = min(k, steps - 1)
        irr = Irr(); running = []; policies = {}
        def pol(name, e4, e6):
            parts = [x[0].strip("{}") for x in (e4, e6) if x]
            f4 = e4[1] if e4 else []; f6 = e6[1] if e6 else []
            expr = "{" + ", ".join(parts) + "}" if parts else None
            if expr is None:
                expr = irr.asset_with([], [])            # an as-set without any route: the policy empties
            running.append(stmt(name, f"/* bgpfu-fltr: {expr} */"))
            policies[name] = {"sel": True, "marked": True, "eval": "ok", "v4": [], "v6": [], "filters4": f4, "filters6": f6, "expr": "", "why": "boundary values"}
        last = kk == steps - 1
        pol("edge-v4", None if last else v4[kk % len(v4)], None)
        pol("edge-v6", None, None if last else v6[kk % len(v6)])
        pol("edge-both", None if last else v4[(kk + 1) % len(v4)], None if last else v6[(kk + 2) % len(v6)])
        sexpr = irr.asset_with(["a"], ["c"])
        running.append(stmt("inside", f"/* bgpfu-fltr: {sexpr} */"))
        policies["inside"] = exp(True, True, "ok", ["a"], ["c"], sexpr, "next to the boundary policies")
        runs.append({"running": running, "irr": irr.db, "faults": [], "repeat": k == steps,
                     "expect": {"prop": prop, "c16": False, "policies": policies}})
    return [{"case": f"{prop}-edge", "instance": "bgpfu", "eph0": [], "runs": runs, "meta": {"family": "boundary"}}]

def volume_scenarios(prop):
    """A run whose updates add up to more than 4096 statements although no single policy is large: 12 policies of
    400 ranges each appear at once, half of them change, all but one go away; small policies before and after them."""
    names = [f"vol-{i:02d}" for i in range(12)] + ["aaa-first", "zzz-last"]
    def rng4(i, shift):
        base = 340 * i + shift
        return ["100.%d.%d.0/24" % (64 + ((2 * (base + j)) >> 8), (2 * (base + j)) & 0xff) for j in range(400)]
    runs = []
    for k in range(4):
        kk = min(k, 2)
        irr = Irr(); running = []; policies = {}
        for i, name in enumerate(names):
            if name.startswith("vol"):
                if kk == 2 and i != 0:
                    running.append(stmt(name, "/* no longer managed */"))
                    policies[name] = exp(False, False, "none", why="unmarked")
                    continue
                p4 = rng4(i, 7 if (kk >= 1 and i % 2) else 0)
                irr.n += 1
                asn = f"AS{65100 + i}"; sname = f"AS-VOL{i}"
                irr.db["as_sets"][sname] = [asn]; irr.db["routes4"][asn] = p4; irr.db["routes6"][asn] = []
                running.append(stmt(name, f"/* bgpfu-fltr: {sname} */"))
                policies[name] = {"sel": True, "marked": True, "eval": "ok", "v4": p4, "v6": [], "expr": sname, "why": "400 ranges, one of twelve"}
            else:
                e = irr.asset_with(["a"], ["c"])
                running.append(stmt(name, f"/* bgpfu-fltr: {e} */"))
                policies[name] = exp(True, True, "ok", ["a"], ["c"], e, "small policy next to the large ones")
        runs.append({"running": running, "irr": irr.db, "faults": [], "repeat": k == 3,
                     "expect": {"prop": prop, "c16": False, "policies": policies}})
    return [{"case": f"{prop}-vol", "instance": "bgpfu", "eph0": [], "runs": runs, "meta": {"family": "volume", "statements_in_first_run": 12 * 401}}]

def big_scenarios(prop):
    """Sizes that cross the round numbers code likes to batch, buffer and cap by (1000, 1024): a policy with 1000 / 1100
    ranges per family that appears, is replaced range by range (every installed range goes, as many new ones come),
    shrinks to a handful and empties, next to a small policy; the last run is repeated."""
    out = []
    v4 = lambda ks: ["172.%d.%d.0/24" % (16 + (k >> 8), k & 0xff) for k in ks]          # under 172.16.0.0/12
    import ipaddress
    v6 = lambda ks: [str(ipaddress.ip_network("2001:db9:%x::/48" % k)) for k in ks]      # under 2001:db9::/36
    for n in (1000, 1100):
        even, odd = list(range(0, 2 * n, 2)), list(range(1, 2 * n, 2))
        # (third step: every IPv4 range replaced - 2n changes in one update - while the IPv6 family empties)
        # (fourth step: all but three of the ranges withdrawn, the three that stay were there before)
        steps = [(v4(even), v6(even[: n // 2])), (v4(odd), v6(odd[: n // 2])), (v4(even), []), (v4(even[:3]), []), ([], [])]
        runs = []
        for k, (p4, p6) in enumerate(steps + [steps[-1]]):
            irr = Irr(); running = []; policies = {}
            irr.n += 1
            name, asn = f"AS-BIG{n}", f"AS{64600 + k}"
            irr.db["as_sets"][name] = [asn]
            irr.db["routes4"][asn] = p4; irr.db["routes6"][asn] = p6
            running.append(stmt("big", f"/* bgpfu-fltr: {name} */"))
            policies["big"] = {"sel": True, "marked": True, "eval": "ok", "v4": p4, "v6": p6, "expr": name, "why": f"{len(p4)}+{len(p6)} ranges"}
            sexpr = irr.asset_with(["a"], ["c"])
            running.append(stmt("small", f"/* bgpfu-fltr: {sexpr} */"))
            policies["small"] = exp(True, True, "ok", ["a"], ["c"], sexpr, "next to the big one")
            runs.append({"running": running, "irr": irr.db, "faults": [], "repeat": k == len(steps),
                         "expect": {"prop": prop, "c16": False, "policies": policies}})
        out.append({"case": f"{prop}-big{n}", "instance": "bgpfu", "eph0": [], "runs": runs, "meta": {"family": "big", "ranges_per_family": n}})
    return out

def c19_binary_scenarios(prop):
    """C19 with the unmodified binary in daemon mode (command line, start-up and the loop as shipped): the FIRST run
    fails - router unreachable, error reply to <open-configuration>, IRR data unobtainable for the only policy is not a
    failure - the daemon must stay up, run again when it gets SIGHUP, converge, and leave with status 0 on SIGTERM."""
    out = []
    for k, first in enumerate(["unreachable", "open-error", "commit-error", "fine"]):
        irr = Irr(); running = []; policies = {}
        expr = irr.asset_with(["a"], ["c"])
        running.append(stmt("p", f"/* bgpfu-fltr: {expr} */"))
        policies["p"] = exp(True, True, "ok", ["a"], ["c"], expr, f"first run: {first}")
        def run(router=None, faults=(), repeat=False):
            r = {"running": running, "irr": irr.db, "faults": list(faults), "repeat": repeat,
                 "expect": {"prop": prop, "c16": False, "policies": policies}}
            if router:
                r["router"] = router
            return r
        r1 = {"unreachable": run(router="unreachable"), "open-error": run(faults=[{"target": "open", "index": 0, "kind": "rpc-error"}]),
              "commit-error": run(faults=[{"target": "commit", "index": 0, "kind": "rpc-error"}]), "fine": run()}[first]
        out.append({"case": f"{prop}-bin{k}", "instance": "bgpfu", "eph0": [],
                    "daemon": {"period": 1, "sessions": 3, "reset_before": []},
                    "runs": [r1, run(), run(repeat=True)], "meta": {"family": "daemon-binary", "first_run": first}})
    return out

def transient_scenarios(prop):
    """C17 at the level of the agent: several policies carry the SAME filter expression, and the IRR answers one
    query of that expression with an error the first time it sees it (transient trouble).  Whichever policy is
    evaluated first may fail - the evaluations after it must not inherit that: at most as many policies may be
    left out as errors were injected, and every one that is installed must be right."""
    out = []
    for k, (kind, where, ndup) in enumerate([("F", "set", 3), ("E", "set", 2), ("F", "route4", 3), ("D", "route6", 4), ("F", "set", 5)]):
        irr = Irr(); running = []; policies = {}
        expr = irr.asset_with(["a", "b"], ["c"])
        asn = f"AS{64512 + irr.n}"
        q = {"set": f"!i{expr},1", "route4": f"!g{asn}", "route6": f"!6{asn}"}[where]
        irr.db["errors_once"] = {q: kind}
        for i in range(ndup):
            name = f"dup-{i}"
            running.append(stmt(name, f"/* bgpfu-fltr: {expr} */"))
            policies[name] = exp(True, True, "either", ["a", "b"], ["c"], expr, f"same expression, transient {kind} on {where}")
            # an error on a route query is sunk: that policy may come out without that family's prefixes
            if where != "set":
                policies[name]["partial_ok"] = True
        cexpr = irr.asset_with(["d"], [])
        running.append(stmt("control", f"/* bgpfu-fltr: {cexpr} */"))
        policies["control"] = exp(True, True, "ok", ["d"], [], cexpr, "control")
        out.append({"case": f"{prop}-tr{k}", "instance": "bgpfu", "eph0": [],
                    "runs": [{"running": running, "irr": irr.db, "faults": [], "repeat": False,
                              "expect": {"prop": prop, "c16": False, "policies": policies, "max_transient_failures": 1}}],
                    "meta": {"family": "transient", "kind": kind, "where": where, "duplicates": ndup}})
    return out

def daemon_twins(scenarios, every):
    """Every `every`-th scenario once more in daemon mode: ONE agent process performs all its runs (the router's
    running configuration, the IRR data and the router's faults change between the runs of that process) and then
    the last run again with unchanged inputs.  Whatever the process carries over from one run to the next - caches,
    remembered failures, remembered router state, credentials - must not change what a run does."""
    out = []
    for s in scenarios[::max(1, every)]:
        if s.get("daemon") or s.get("target") == "local":
            continue
        if any(r.get("twin") or r.get("tamper") or r.get("style") or r.get("irr_mode", "ok") != "ok" for r in s["runs"]):
            continue
        t = json.loads(json.dumps(s))
        last = json.loads(json.dumps(t["runs"][-1]))
        # "unchanged inputs" only means something after a run that was not disturbed by the router
        last["repeat"] = not last.get("faults"); last["faults"] = []
        # ... in which nothing is left to update: that every managed statement is selected shows in the runs before it
        last["expect"]["c16"] = False
        t["runs"].append(last)
        t["case"] = s["case"] + "-D"
        t["daemon"] = {"period": 1, "sessions": len(t["runs"]), "reset_before": []}
        t["meta"] = dict(t.get("meta") or {}, mode="daemon")
        out.append(t)
    return out

def tamper_scenarios(prop):
    """C02: the agent installs policies itself (run 1); then somebody changes the ephemeral instance by hand
    (run 2 starts from the tampered state) while the targets stay the same or change."""
    out = []
    k = 0
    for how in ("drop-reject", "drop-reject-and-add-filter", "add-accept-all-term"):
        for tgt2 in ("same", "other"):
            irr1 = Irr(); irr2 = Irr(); running = []; pol1 = {}; pol2 = {}
            t1 = (["a", "b"], ["c"]); t2 = t1 if tgt2 == "same" else (["a"], [])
            e1 = irr1.asset_with(*t1); e2 = irr2.asset_with(*t2)          # same set name in both databases
            running.append(stmt("tampered", f"/* bgpfu-fltr: {e1} */"))
            pol1["tampered"] = exp(True, True, "ok", t1[0], t1[1], e1, f"tamper {how}")
            pol2["tampered"] = exp(True, True, "ok", t2[0], t2[1], e2, f"tamper {how}")
            out.append({"case": f"{prop}-t{k}", "instance": "bgpfu", "eph0": [],
                        "runs": [{"running": running, "irr": irr1.db, "faults": [], "repeat": False,
                                  "expect": {"prop": prop, "c16": False, "policies": pol1}},
                                 {"running": running, "irr": irr2.db, "faults": [], "repeat": False, "tamper": how,
                                  "expect": {"prop": prop, "c16": False, "foreign": True, "policies": pol2}}],
                        "meta": {"family": "tamper", "how": how, "target": tgt2}})
            k += 1
    return out
