#!/usr/bin/env python3
"""Fold the SUMMARY line of seeded/<id>/confirm.log (written by tools/confirm_seeded.sh) into meta.json."""
import json, os, re, sys
root = os.path.join(os.path.dirname(os.path.abspath(__file__)), "..", "seeded")
for d in sorted(os.listdir(root)):
    m = os.path.join(root, d, "meta.json"); c = os.path.join(root, d, "confirm.log")
    if not (os.path.exists(m) and os.path.exists(c)):
        continue
    meta = json.load(open(m))
    s = [l for l in open(c, errors="replace") if l.startswith("SUMMARY")]
    if not s:
        continue
    g = re.match(r"SUMMARY (\S+) clean:DEMO_RESULT=(\S*) build_rc:(\d+) tests\(passed/failed\):(\d+)/(\d+) patched:DEMO_RESULT=(\S*)", s[-1])
    if not g:
        meta["demo_confirmed"] = "unparsed: " + s[-1].strip()
    else:
        ok = g.group(2) == "pass" and g.group(3) == "0" and g.group(5) == "0" and int(g.group(4)) >= 57 and g.group(6) == "fail"
        meta["demo_confirmed"] = bool(ok)
        meta["confirmation"] = {"demo_on_clean_tree": g.group(2), "build_rc": int(g.group(3)), "tests_passed": int(g.group(4)),
                                "tests_failed": int(g.group(5)), "demo_with_change": g.group(6),
                                "how": "tools/confirm_seeded.sh in a scratch worktree at base_commit_of_patch: run_demo.sh, apply patch.diff, "
                                       "cargo build --workspace, cargo test --workspace --no-fail-fast, run_demo.sh"}
    json.dump(meta, open(m, "w"), indent=1); open(m, "a").write("\n")
    print(d, meta["demo_confirmed"])
