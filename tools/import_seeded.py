#!/usr/bin/env python3
"""Copy the deliverables of a mutant-writing sub-agent (<dir>/out/<Cxx-n>/{patch.diff,notes.md,demo/}) into /verif/seeded."""
import json, os, shutil, sys
src, base = sys.argv[1], sys.argv[2]
root = os.path.join(os.path.dirname(os.path.abspath(__file__)), "..", "seeded")
for d in sorted(os.listdir(os.path.join(src, "out"))):
    s = os.path.join(src, "out", d); t = os.path.join(root, d)
    if not os.path.exists(os.path.join(s, "patch.diff")):
        print("skip", d); continue
    if os.path.exists(t):
        shutil.rmtree(t)
    shutil.copytree(s, t, ignore=shutil.ignore_patterns("target", "*.log"))
    notes = open(os.path.join(t, "notes.md")).read() if os.path.exists(os.path.join(t, "notes.md")) else ""
    meta = {"breaks_property": d.split("-")[0], "written_for_property": d.split("-")[0], "title": notes.strip().split("\n")[0].lstrip("# "),
            "needs_to_manifest": "see notes.md", "base_commit_of_patch": base, "detected_by": "pending", "demo_confirmed": "pending", "batch": 3}
    json.dump(meta, open(os.path.join(t, "meta.json"), "w"), indent=1)
    print("imported", d)
